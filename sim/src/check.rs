//! Batch orchestration: worker processes (crash isolation: one single-threaded process per
//! worker, the parent only aggregates), minimisation, replay validation, evidence.

use crate::exec::Stats;
use crate::json::J;
use crate::minimize::{minimize, Target};
use crate::rng::{fnv1a, run_seed};
use crate::runner::{load_known, run_trace};
use crate::spec::*;
use crate::{conc, gen, verif_root};
use std::collections::{BTreeMap, BTreeSet};
use std::io::{BufRead, BufReader, Write};
use std::process::{Command, Stdio};
use std::time::{Duration, Instant};

pub struct PropInfo {
    pub id: &'static str,
    pub level: &'static str,
    pub quick_runs: u64,
    pub thorough_runs: u64,
    pub rule: &'static str,
}

pub fn prop_info(prop: &str) -> Option<PropInfo> {
    let p = |id, level, q, t, rule| Some(PropInfo { id, level, quick_runs: q, thorough_runs: t, rule });
    match prop {
        "C04" => p("C04", "exploration", 16000, 128000, "one evaluation = one seeded history (12-36 ops: stores of 0..6400-byte events, removals, deletions, failed stores, three restart kinds, forced remap on/off) executed on the real Store with every offset ever returned re-read after every step; non-trivial = the history crossed at least one growth of event.map; distinct = distinct hash of the (op kind, outcome class, model size) sequence"),
        "C05" => p("C05", "exploration", 24000, 192000, "one evaluation = one seeded history of 30-90 ops of which most are random filters (every subset of ids/authors/kinds/tags/since/until/limit, 1-3 values per list, scrape allowances x simulated clock, seeded screening) checked against the NIP-01 model; non-trivial = at least 10 queries over at least 4 stored events; distinct = distinct hash of (plan, match count, limit) sequences"),
        "C09" => p("C09", "exploration", 14000, 112000, "one evaluation = one seeded history biased to several versions per replaceable address arriving in every timestamp order, neighbours (author, kind+-1, d differing in last byte / length / NUL / beyond byte 182), resubmissions and address deletions; non-trivial = at least one displacement, tie or 'replaced' refusal happened; distinct = distinct outcome-sequence hash"),
        "C10" => p("C10", "exploration", 12000, 96000, "one evaluation = one seeded history with victim events and deletion requests mixing own / foreign / absent / malformed e and a targets in random order; non-trivial = at least one request naming a foreign target was processed; distinct = distinct outcome-sequence hash"),
        "C11" => p("C11", "exploration", 12000, 96000, "one evaluation = one seeded history with 1-3 deletion requests per id/address in every timestamp order, resubmissions of covered and uncovered versions, restarts and rebuild; non-trivial = a store was refused as deleted or an address marker was set; distinct = distinct outcome-sequence hash"),
        "C12" => p("C12", "fault_enumeration", 9000, 72000, "one evaluation = one seeded history in which EVERY fail-point occurrence of EVERY store is made to fail once (the store is then retried without the fault) and every refused store (duplicate/deleted/replaced/invalid delete) is compared, full observation before vs after; non-trivial = at least one injected failure and one refused store were compared; distinct = distinct outcome-sequence hash"),
        "C13" => p("C13", "fault_enumeration", 2800, 22400, "half of the evaluations: one seeded schedule of 2-4 real threads (growth races, ephemeral appends, mixes) in which the store files are copied at four instants while all threads are parked and once at the end (= kills of the process in the middle of concurrent work), each copy reopened: every plain store that had returned and every untouched base event must be there with its bytes, and a fresh store must work. The other half: one evaluation = one seeded history (5-14 ops) in which EVERY hook-granular kill point of every store/remove/vanish/open is snapshotted (byte copy of event.map, data.mdb, lock.mdb = what SIGKILL leaves in the page cache), reopened, compared with {state before, state after} and continued; non-trivial = at least 10 kill points were checked; distinct = distinct outcome-sequence hash"),
        "C14" => p("C14", "exploration", 50000, 400000, "one evaluation = one seeded schedule of 2-4 real threads x 1-3 ops over a prepared store, exactly one thread released at a time at the verif yield points, writer lock modelled; history checked against serial replay in lock order with per-reader snapshot windows; non-trivial = the schedule switched threads while an operation was in flight; distinct = distinct (thread, point) schedule hash"),
        "C15" => p("C15", "exploration", 24000, 192000, "one evaluation = one seeded history taking references (address + bytes) and storing across growth steps with the page after the mapping occupied; after every op the address of a fresh lookup is compared with the recorded one (the stale pointer is never dereferenced); non-trivial = a reference was checked across at least one growth; distinct = distinct outcome-sequence hash"),
        "C16" => p("C16", "exploration", 10000, 80000, "one evaluation = one seeded history with drop+new, close+new, copy+open and rebuild (also twice) at random positions over stores with leftovers, long/NUL d markers and 0-3 extra tables; full observation compared before vs after; non-trivial = at least one restart happened with at least 3 stored events; distinct = distinct outcome-sequence hash"),
        "C17" => p("C17", "exploration", 7000, 56000, "one evaluation = one seeded history over events with repeated, long, empty and multi-string tags; after every step the self-derived filter battery and the index counts are compared with the model, most runs end by removing everything and requiring empty indexes; non-trivial = at least one removal/displacement happened and the battery ran at least 5 times; distinct = distinct outcome-sequence hash"),
        "C18" => p("C18", "exploration", 12000, 96000, "one evaluation = one seeded history of removals (present/absent/removed), vanishes (authors with 0..many events, gift-wraps naming the key first / later / as a non-first value / in a non-1059 event), resubmissions and ephemeral stores; non-trivial = at least one removal or vanish hit a retrievable event; distinct = distinct outcome-sequence hash"),
        _ => None,
    }
}

fn nontrivial(prop: &str, s: &Stats) -> bool {
    if prop != "C14" && s.get("conc/steps") > 0 {
        return s.get("conc/switch_in_flight") >= 1;
    }
    let sum_prefix = |p: &str| -> u64 { s.0.iter().filter(|(k, _)| k.starts_with(p)).map(|(_, v)| *v).sum() };
    match prop {
        "C04" => s.get("fault/growth") >= 1,
        "C05" => s.get("op/query") >= 10 && s.get("store/ok") >= 4,
        "C09" => s.get("probe/displaced") + s.get("store/replaced") + s.get("probe/tie_accepted") >= 1,
        "C10" => s.get("probe/invalid_delete_refused") + s.get("probe/foreign_request_accepted_inert") >= 1,
        "C11" => s.get("store/deleted") + s.get("probe/addr_marker_set") + s.get("probe/id_marker_set") >= 1,
        "C12" => sum_prefix("fault/failpoint/") >= 1 && s.get("probe/failed_store_state_compared") >= 1,
        "C13" => s.get("fault/kill_points_checked") >= 10 || s.get("crash/kill_instants_in_concurrent_runs") >= 3,
        "C14" => s.get("conc/switch_in_flight") >= 1,
        "C15" => s.get("ref_checks") >= 1 && s.get("fault/growth") >= 1,
        "C16" => sum_prefix("fault/restart/") >= 1 && s.get("store/ok") >= 3,
        "C17" => s.get("observations") >= 5 && (s.get("remove/present") + s.get("probe/displaced") + s.get("vanish/targets")) >= 1,
        "C18" => s.get("remove/present") + s.get("vanish/targets") >= 1,
        _ => true,
    }
}

/// Some properties' checks have a second leg: a share of the runs are concurrent schedules
/// of the scenarios that concern the property (decided by the run index, so that run i of a
/// batch is always the same run).
fn conc_share(prop: &str) -> u64 {
    match prop {
        "C14" => 100,
        "C09" | "C10" | "C11" => 25,
        "C04" | "C15" | "C18" | "C17" => 15,
        "C05" | "C12" => 10,
        // (kills in the middle of concurrent growth races; these runs are cheap, the batch is
        // enlarged by as many)
        "C13" => 50,
        _ => 0,
    }
}

pub fn gen_trace_i(prop: &str, rs: u64, i: u64) -> Trace {
    if (i % 100) < conc_share(prop) {
        let mut t = conc::generate(rs, prop);
        t.cfg.prop = prop.to_string();
        t
    } else {
        gen::generate(prop, rs)
    }
}

/// Is this the release-like build of the simulator (profile `simrel`: no debug assertions, hence
/// pocket-db's 4 MiB growth chunk, and wrapping arithmetic)? It runs the second, smaller leg of every
/// check: its own seeds, its own evidence file, replay files marked `rel-`.
pub fn release_build() -> bool {
    !cfg!(debug_assertions)
}

fn label(prop: &str) -> String {
    if release_build() {
        format!("pocket-sim/{prop}/release-build")
    } else {
        format!("pocket-sim/{prop}")
    }
}

// ------------------------------------------------------------------ worker

pub fn cmd_worker(opts: &BTreeMap<String, String>) -> i32 {
    let prop = opts.get("prop").cloned().unwrap_or_default();
    let seed: u64 = opts.get("seed").and_then(|s| s.parse().ok()).unwrap_or(1);
    let start: u64 = opts.get("start").and_then(|s| s.parse().ok()).unwrap_or(0);
    let stride: u64 = opts.get("stride").and_then(|s| s.parse().ok()).unwrap_or(1);
    let runs: u64 = opts.get("runs").and_then(|s| s.parse().ok()).unwrap_or(1);
    let deadline: u64 = opts.get("deadline").and_then(|s| s.parse().ok()).unwrap_or(3600);
    let want_log = opts.contains_key("log");
    crate::runner::watchdog_start();
    if opts.get("tier").map(|t| t == "thorough").unwrap_or(false) {
        crate::gen::THOROUGH.store(true, std::sync::atomic::Ordering::Relaxed);
    }
    if opts.contains_key("no-maplock") {
        crate::conc::NO_MAPLOCK_MODEL.store(true, std::sync::atomic::Ordering::Relaxed);
    }
    let (known_open, _) = load_known(&format!("{}/KNOWN_FINDINGS.txt", verif_root()));
    let t0 = Instant::now();
    let out = std::io::stdout();
    let mut total = Stats::default();
    let mut i = start;
    while i < runs {
        if t0.elapsed() > Duration::from_secs(deadline) {
            let mut o = out.lock();
            let _ = writeln!(o, "D {i}");
            break;
        }
        let rs = run_seed(seed, &label(&prop), i);
        {
            let mut o = out.lock();
            let _ = writeln!(o, "B {i} {rs}");
            let _ = o.flush();
        }
        let trace = gen_trace_i(&prop, rs, i);
        let r = run_trace(&trace, &known_open, false);
        let nt = nontrivial(&prop, &r.stats);
        let loghash = fnv1a(r.log.join("\n").as_bytes());
        let mut o = out.lock();
        let status = match &r.finding {
            None => "ok",
            Some(f) if f.props.is_empty() => "anomaly",
            Some(_) => "finding",
        };
        let _ = writeln!(o, "R {i} {rs} {} {:016x} {:016x} {} {}", r.ops_executed, r.signature, loghash, nt as u8, status);
        if let Some(f) = &r.finding {
            let _ = writeln!(o, "F {i} {rs}\t{}\t{}\t{}\t{}", f.clause, f.props.join(","), f.op_index, f.detail.replace(['\n', '\t'], " "));
        }
        for k in &r.known {
            let _ = writeln!(o, "K {i} {rs}\t{}\t{}\t{}", k.sig, k.props.join(","), k.detail.replace(['\n', '\t'], " "));
        }
        if want_log {
            for l in &r.log {
                let _ = writeln!(o, "L {i} {l}");
            }
        }
        let _ = o.flush();
        total.merge(&r.stats);
        i += stride;
    }
    let mut o = out.lock();
    for (k, v) in &total.0 {
        let _ = writeln!(o, "S {k} {v}");
    }
    let _ = writeln!(o, "E");
    let _ = o.flush();
    0
}

// ------------------------------------------------------------------ parent

#[derive(Clone, Debug)]
struct FindingRec {
    i: u64,
    run_seed: u64,
    clause: String,
    props: Vec<String>,
    op_index: usize,
    detail: String,
}

#[derive(Default)]
struct Agg {
    runs: u64,
    ops: u64,
    nontrivial_sigs: BTreeSet<String>,
    all_sigs: BTreeSet<String>,
    findings: Vec<FindingRec>,
    known: BTreeMap<String, (Vec<String>, String, u64, u64)>, // sig -> (props, detail, count, first run seed)
    stats: Stats,
    crashed: Vec<(u64, u64, String)>, // (i, run seed, how)
    loghashes: BTreeMap<u64, String>,
    incomplete: bool,
}

fn spawn_workers(prop: &str, seed: u64, runs: u64, jobs: u64, deadline: u64, exe: &std::path::Path, log: bool, tier: &str) -> Agg {
    let mut handles = vec![];
    for j in 0..jobs {
        let mut cmd = Command::new(exe);
        let _ = cmd
            .arg("worker")
            .args(["--prop", prop])
            .args(["--seed", &seed.to_string()])
            .args(["--start", &j.to_string()])
            .args(["--stride", &jobs.to_string()])
            .args(["--runs", &runs.to_string()])
            .args(["--deadline", &deadline.to_string()])
            .args(["--tier", tier])
            .args(if std::env::var("POCKET_SIM_NO_MAPLOCK").is_ok() { vec!["--no-maplock"] } else { vec![] })
            .stdout(Stdio::piped())
            .stderr(Stdio::null());
        if log {
            let _ = cmd.arg("--log");
        }
        let mut child = cmd.spawn().expect("spawn worker");
        let child_pid = child.id();
        let stdout = child.stdout.take().unwrap();
        handles.push(std::thread::spawn(move || {
            let mut agg = Agg::default();
            let mut current: Option<(u64, u64)> = None;
            let mut ended = false;
            let rd = BufReader::new(stdout);
            for line in rd.lines().map_while(Result::ok) {
                let (tag, rest) = line.split_once(' ').unwrap_or((line.as_str(), ""));
                match tag {
                    "B" => {
                        let mut it = rest.split(' ');
                        let i: u64 = it.next().and_then(|x| x.parse().ok()).unwrap_or(0);
                        let rs: u64 = it.next().and_then(|x| x.parse().ok()).unwrap_or(0);
                        current = Some((i, rs));
                    }
                    "R" => {
                        let f: Vec<&str> = rest.split(' ').collect();
                        if f.len() >= 7 {
                            agg.runs += 1;
                            agg.ops += f[2].parse::<u64>().unwrap_or(0);
                            let _ = agg.all_sigs.insert(f[3].to_string());
                            if f[5] == "1" {
                                let _ = agg.nontrivial_sigs.insert(f[3].to_string());
                            }
                            let _ = agg.loghashes.insert(f[0].parse().unwrap_or(0), f[4].to_string());
                        }
                        current = None;
                    }
                    "F" => {
                        let f: Vec<&str> = rest.split('\t').collect();
                        if f.len() >= 5 {
                            let mut h = f[0].split(' ');
                            let i: u64 = h.next().and_then(|x| x.parse().ok()).unwrap_or(0);
                            let rs: u64 = h.next().and_then(|x| x.parse().ok()).unwrap_or(0);
                            agg.findings.push(FindingRec {
                                i,
                                run_seed: rs,
                                clause: f[1].to_string(),
                                props: f[2].split(',').filter(|s| !s.is_empty()).map(|s| s.to_string()).collect(),
                                op_index: f[3].parse().unwrap_or(0),
                                detail: f[4].to_string(),
                            });
                        }
                    }
                    "K" => {
                        let f: Vec<&str> = rest.split('\t').collect();
                        if f.len() >= 4 {
                            let mut h = f[0].split(' ');
                            let _i = h.next();
                            let rs: u64 = h.next().and_then(|x| x.parse().ok()).unwrap_or(0);
                            let e = agg.known.entry(f[1].to_string()).or_insert_with(|| {
                                (f[2].split(',').map(|s| s.to_string()).collect(), f[3].to_string(), 0, rs)
                            });
                            e.2 += 1;
                        }
                    }
                    "S" => {
                        if let Some((k, v)) = rest.rsplit_once(' ') {
                            agg.stats.add(k, v.parse().unwrap_or(0));
                        }
                    }
                    "D" => agg.incomplete = true,
                    "E" => ended = true,
                    _ => {}
                }
            }
            let status = child.wait().ok();
            crate::runner::cleanup_scratch_of(child_pid);
            if !ended {
                let how = format!("{:?}", status);
                if let Some((i, rs)) = current {
                    agg.crashed.push((i, rs, how));
                } else {
                    agg.crashed.push((u64::MAX, 0, how));
                }
            }
            agg
        }));
    }
    let mut total = Agg::default();
    for h in handles {
        let a = h.join().expect("reader thread");
        total.runs += a.runs;
        total.ops += a.ops;
        total.nontrivial_sigs.extend(a.nontrivial_sigs);
        total.all_sigs.extend(a.all_sigs);
        total.findings.extend(a.findings);
        for (k, v) in a.known {
            let e = total.known.entry(k).or_insert((v.0.clone(), v.1.clone(), 0, v.3));
            e.2 += v.2;
        }
        total.stats.merge(&a.stats);
        total.crashed.extend(a.crashed);
        total.loghashes.extend(a.loghashes);
        total.incomplete |= a.incomplete;
    }
    total
}

fn run_with_timeout(cmd: &mut Command, secs: u64) -> Option<(i32, String)> {
    let mut child = cmd.stdout(Stdio::piped()).stderr(Stdio::null()).spawn().ok()?;
    let child_pid = child.id();
    let t0 = Instant::now();
    loop {
        match child.try_wait() {
            Ok(Some(st)) => {
                let mut s = String::new();
                if let Some(mut o) = child.stdout.take() {
                    let _ = std::io::Read::read_to_string(&mut o, &mut s);
                }
                crate::runner::cleanup_scratch_of(child_pid);
                return Some((st.code().unwrap_or(-1), s));
            }
            Ok(None) => {
                if t0.elapsed() > Duration::from_secs(secs) {
                    let _ = child.kill();
                    let _ = child.wait();
                    crate::runner::cleanup_scratch_of(child_pid);
                    return None;
                }
                std::thread::sleep(Duration::from_millis(20));
            }
            Err(_) => return None,
        }
    }
}

pub fn cmd_check(opts: &BTreeMap<String, String>) -> i32 {
    let prop = match opts.get("prop") {
        Some(p) => p.clone(),
        None => {
            eprintln!("--prop required");
            return 2;
        }
    };
    let info = match prop_info(&prop) {
        Some(i) => i,
        None => {
            eprintln!("unknown property {prop}");
            return 2;
        }
    };
    let tier = opts.get("tier").cloned().or_else(|| std::env::var("VERIF_TIER").ok()).unwrap_or_else(|| "quick".into());
    let tier = if tier == "thorough" { "thorough" } else { "quick" };
    let seed: u64 = opts
        .get("seed")
        .and_then(|s| s.parse().ok())
        .or_else(|| std::env::var("VERIF_SEED").ok().and_then(|s| s.trim().parse().ok()))
        .unwrap_or(1);
    let jobs: u64 = opts
        .get("jobs")
        .and_then(|s| s.parse().ok())
        .unwrap_or_else(|| std::thread::available_parallelism().map(|n| n.get() as u64).unwrap_or(8).min(16));
    let runs: u64 = opts
        .get("runs")
        .and_then(|s| s.parse().ok())
        .or_else(|| std::env::var("VERIF_RUNS").ok().and_then(|s| s.parse().ok()))
        .unwrap_or({
            let r = if tier == "quick" { info.quick_runs } else { info.thorough_runs };
            // the release-build leg: a sixth of the runs
            if release_build() {
                (r / 6).max(200)
            } else {
                r
            }
        });
    let deadline: u64 = opts.get("deadline").and_then(|s| s.parse().ok()).unwrap_or(if tier == "quick" { 300 } else { 3000 });
    let exe = std::env::current_exe().expect("current_exe");
    let root = verif_root();
    crate::runner::sweep_stale_scratch();
    let (_known_open, known_entries) = load_known(&format!("{root}/KNOWN_FINDINGS.txt"));
    println!("pocket-sim check property={prop} tier={tier} VERIF_SEED={seed} runs={runs} workers={jobs}{}", if release_build() { " build=release-like (4 MiB chunk, wrapping arithmetic, no debug assertions)" } else { "" });
    let relp = if release_build() { "rel-" } else { "" };
    // the concurrent mode models std's RwLock inside mmap-append (a new reader waits while a
    // writer is queued); confirm with real threads that this is how the lock behaves here
    let mut lock_probe = "not run (no concurrent leg)".to_string();
    if conc_share(&prop) > 0 {
        match run_with_timeout(Command::new(&exe).arg("lock-model-probe"), 20) {
            Some((7, _)) => lock_probe = "confirmed: a reader re-entering the map's read lock dead-locks against a queued writer (real threads, real std RwLock)".to_string(),
            other => {
                lock_probe = format!("NOT confirmed ({:?}): the lock model of the concurrent mode is switched off for this batch", other.map(|x| x.0));
                std::env::set_var("POCKET_SIM_NO_MAPLOCK", "1");
                println!("note: {lock_probe}");
            }
        }
    }
    let t0 = Instant::now();
    if tier == "thorough" {
        crate::gen::THOROUGH.store(true, std::sync::atomic::Ordering::Relaxed);
    }
    let agg = spawn_workers(&prop, seed, runs, jobs, deadline, &exe, false, tier);
    let wall = t0.elapsed().as_secs_f64();

    let mut exit = 0;
    let mut violations = 0;
    let mut violation_lines = vec![];

    // findings that speak for this property
    let mine: Vec<&FindingRec> = agg.findings.iter().filter(|f| f.props.iter().any(|p| *p == prop)).collect();
    let others: Vec<&FindingRec> = agg.findings.iter().filter(|f| !f.props.is_empty() && !f.props.iter().any(|p| *p == prop)).collect();
    let anomalies: Vec<&FindingRec> = agg.findings.iter().filter(|f| f.props.is_empty()).collect();

    let _ = std::fs::create_dir_all(format!("{root}/replays"));
    if !mine.is_empty() {
        // report distinct clauses, the earliest run of each (at most 3)
        let mut by_clause: BTreeMap<String, &FindingRec> = BTreeMap::new();
        for f in &mine {
            let e = by_clause.entry(f.clause.clone()).or_insert(f);
            if f.i < e.i {
                *e = f;
            }
        }
        for (clause, f) in by_clause.iter().take(3) {
            violations += 1;
            let trace = gen_trace_i(&prop, f.run_seed, f.i);
            let full = format!("{root}/replays/{relp}{prop}-{}-{}.full.trace", f.run_seed, clause);
            let mut t = trace.clone();
            t.expect = Some(format!("{} {}", clause, f.props.join(",")));
            let _ = std::fs::write(&full, t.to_text());
            let min = format!("{root}/replays/{relp}{prop}-{}-{}.trace", f.run_seed, clause);
            let mut path = full.clone();
            let r = run_with_timeout(
                Command::new(&exe).arg("minimize").arg(&full).arg(&min).args(["--clause", clause]).args(["--props", &f.props.join(",")]),
                if tier == "quick" { 120 } else { 600 },
            );
            if let Some((0, _)) = r {
                // replay the minimised file in a fresh process: it must fail the same way
                if let Some((1, out)) = run_with_timeout(Command::new(&exe).arg("replay").arg(&min), 120) {
                    if out.contains(&format!("clause={clause}")) {
                        path = min.clone();
                        let _ = std::fs::remove_file(&full);
                    }
                }
            }
            println!("violation: clause={} props={} seed={} op={} :: {}", clause, f.props.join(","), f.run_seed, f.op_index, f.detail);
            violation_lines.push(format!("VIOLATION property={prop} replay={path}"));
        }
        exit = 1;
    }
    // a worker that died is a violation candidate of its own: confirm in a fresh process
    for (n_died, (i, rs, how)) in agg.crashed.iter().enumerate() {
        if n_died >= 3 {
            println!("(... {} more worker processes died; not replayed)", agg.crashed.len() - 3);
            break;
        }
        if *i == u64::MAX {
            println!("HARNESS-ERROR: a worker died outside a run ({how})");
            if exit == 0 {
                exit = 2;
            }
            continue;
        }
        let trace = gen_trace_i(&prop, *rs, *i);
        let path = format!("{root}/replays/{relp}{prop}-{rs}-process-died.trace");
        let mut t = trace.clone();
        t.expect = Some(format!("process-died {prop}"));
        let _ = std::fs::write(&path, t.to_text());
        let r = run_with_timeout(Command::new(&exe).arg("replay").arg(&path), 180);
        match r {
            Some((0, _)) => {
                println!("HARNESS-ERROR: worker died in run {i} (seed {rs}, {how}) but the replay passes: nondeterminism");
                if exit == 0 {
                    exit = 2;
                }
            }
            _ => {
                violations += 1;
                println!("violation: the process running seed {rs} died ({how}) or hung; replay does too");
                violation_lines.push(format!("VIOLATION property={prop} replay={path}"));
                exit = 1;
            }
        }
    }
    if !anomalies.is_empty() {
        for a in anomalies.iter().take(5) {
            println!("ANOMALY seed={} clause={} :: {}", a.run_seed, a.clause, a.detail);
        }
        if exit == 0 && anomalies.len() as u64 * 50 > agg.runs.max(1) {
            exit = 2;
        }
    }
    if agg.incomplete {
        println!("note: the safety deadline cut the batch short ({} of {} runs)", agg.runs, runs);
    }
    if agg.runs == 0 {
        println!("HARNESS-ERROR: no run completed");
        exit = 2;
    }

    // known findings of this property that fired
    let mut known_json = vec![];
    for (sig, (props, detail, count, first)) in &agg.known {
        if props.iter().any(|p| *p == prop) {
            println!("KNOWN-FINDING: property={prop} sig={sig} {detail} ({count} runs, first run seed {first})");
            known_json.push(J::obj(vec![("sig", J::s(sig)), ("runs", J::u(*count)), ("first_run_seed", J::u(*first)), ("what", J::s(detail))]));
        }
    }
    let _ = known_entries;

    // ---------------- C13: cross-check of the snapshot stub against a real fork + SIGKILL
    let mut fidelity_json = J::Null;
    if prop == "C13" && !release_build() {
        let n = if tier == "quick" { 150 } else { 3000 };
        match run_with_timeout(Command::new(&exe).arg("fidelity").args(["--runs", &n.to_string()]).args(["--seed", &seed.to_string()]), 600) {
            Some((code, out)) => {
                let mut attempted = 0u64;
                let mut compared = 0u64;
                let mut mism = 0u64;
                for l in out.lines() {
                    if let Some(rest) = l.strip_prefix("FIDELITY attempted=") {
                        let nums: Vec<u64> = rest.split(|c: char| !c.is_ascii_digit()).filter(|x| !x.is_empty()).filter_map(|x| x.parse().ok()).collect();
                        if nums.len() >= 4 {
                            attempted = nums[0];
                            compared = nums[1];
                            mism = nums[3];
                        }
                    }
                    if l.starts_with("FIDELITY-MISMATCH") {
                        println!("{l}");
                    }
                }
                println!("kill fidelity: {compared} real fork+SIGKILL executions compared with the snapshot taken at the same hook point, {mism} mismatches");
                fidelity_json = J::obj(vec![
                    ("what", J::s("the same trace is run in a forked child that SIGKILLs itself at global hook point K and in-process with a byte copy at K; both directories must open to the same full observation and hold the same event.map bytes")),
                    ("attempted", J::u(attempted)),
                    ("compared", J::u(compared)),
                    ("mismatches", J::u(mism)),
                ]);
                if (code != 0 || mism > 0 || compared == 0) && exit == 0 {
                    println!("HARNESS-ERROR: the snapshot stub disagrees with a real SIGKILL (or the probe did not run)");
                    exit = 2;
                }
            }
            None => {
                println!("HARNESS-ERROR: fidelity probe timed out");
                if exit == 0 {
                    exit = 2;
                }
            }
        }
    }

    // ---------------- evidence
    let mut samples = vec![];
    for i in 0..3u64.min(runs) {
        let rs = run_seed(seed, &label(&prop), i);
        let t = gen_trace_i(&prop, rs, i);
        let mut lines: Vec<String> = t.ops.iter().take(14).map(|o| o.brief()).collect();
        if t.ops.len() > 14 {
            lines.push(format!("... ({} ops in total)", t.ops.len()));
        }
        for (ti, th) in t.threads.iter().enumerate() {
            for o in th {
                lines.push(format!("thread {ti}: {}", o.brief()));
            }
        }
        if !t.schedule.is_empty() {
            lines.push(format!("schedule: {:?}", t.schedule));
        }
        samples.push(J::obj(vec![
            ("run_seed", J::u(rs)),
            ("mode", J::s(t.cfg.mode.name())),
            ("blocker", J::Bool(t.cfg.blocker)),
            ("extra_tables", J::u(t.cfg.extra_tables as u64)),
            ("ops", J::strs(&lines)),
        ]));
    }
    let faults: BTreeMap<String, u64> = agg.stats.0.iter().filter(|(k, _)| k.starts_with("fault/")).map(|(k, v)| (k.clone(), *v)).collect();
    let probes: BTreeMap<String, u64> = agg.stats.0.iter().filter(|(k, _)| k.starts_with("probe/") || k.starts_with("crash/") || k.starts_with("conc/")).map(|(k, v)| (k.clone(), *v)).collect();
    let opsmap: BTreeMap<String, u64> = agg
        .stats
        .0
        .iter()
        .filter(|(k, _)| k.starts_with("op/") || k.starts_with("store/") || k.starts_with("query/") || k.starts_with("remove/") || k.starts_with("vanish/"))
        .map(|(k, v)| (k.clone(), *v))
        .collect();
    let other_clauses: BTreeMap<String, u64> = {
        let mut m = BTreeMap::new();
        for f in &others {
            *m.entry(format!("{} [{}]", f.clause, f.props.join(","))).or_insert(0u64) += 1;
        }
        m
    };
    let per_hour = if wall > 0.0 { (agg.runs as f64 / wall * 3600.0) as u64 } else { 0 };
    let clock_note = "the store has no timers; simulated time = the injected values of Time::now() (0, before every `since`, around 1.7e9, far future, u64::MAX) and event timestamps in a 16-second window plus 0/1/u64::MAX; steps, not seconds, are the unit of progress";
    let coverage = J::obj(vec![
        ("evaluations", J::u(agg.runs)),
        ("distinct_nontrivial", J::u(agg.nontrivial_sigs.len() as u64)),
        ("rule", J::s(info.rule)),
        ("concurrent_leg_percent_of_runs", J::u(conc_share(&prop))),
        ("fault_kinds_in_the_sequential_mix", J::s("injected fail-points (fail k), reader-table exhaustion (starve), no room (fsize: RLIMIT_FSIZE, real EFBIG; also on rebuild), kill adoption (crash k), forced remap (blocker), restarts (drop / close / copy / rebuild), removal or blocking of backup files, clock; which of them a batch draws is set by the property's weights (gen.rs) and counted under faults_fired")),
        ("samples", J::Arr(samples)),
        ("distinct_run_signatures", J::u(agg.all_sigs.len() as u64)),
        ("ops_executed", J::u(agg.ops)),
        ("observations", J::u(agg.stats.get("observations"))),
        ("hook_points_crossed", J::u(agg.stats.get("points_crossed"))),
        ("runs_per_hour", J::u(per_hour)),
        ("seeds_per_hour", J::u(per_hour)),
        ("simulated_time", J::s(clock_note)),
        ("faults_fired", J::map(&faults)),
        ("reach_probes", J::map(&probes)),
        ("operations", J::map(&opsmap)),
        ("runs_truncated_by_a_clause_of_another_property", J::map(&other_clauses)),
        ("anomalies", J::u(anomalies.len() as u64)),
        ("worker_processes_died", J::u(agg.crashed.len() as u64)),
        ("known_findings_fired", J::Arr(known_json)),
        ("kill_fidelity_probe", fidelity_json),
        ("rwlock_model_probe", J::s(&lock_probe)),
        ("exhaustive", J::Bool(false)),
        (
            "components_real",
            J::strs(&["pocket-db (Store, EventStore, Lmdb)", "pocket-types", "heed", "liblmdb (C)", "mmap-append", "memmap2", "kernel mmap/mremap/tmpfs"].map(String::from)),
        ),
        (
            "components_stubbed",
            J::strs(
                &[
                    "process death = byte copy of event.map/data.mdb/lock.mdb at the hook point",
                    "thread scheduler = controller releasing one real thread at a time",
                    "wall clock = pocket_types::verif_clock",
                    "I/O and engine errors = fail-points (injected) and RLIMIT_FSIZE (the kernel's own EFBIG on ftruncate / pwrite: real)",
                    "address-space layout = PROT_NONE page after the event map",
                ]
                .map(String::from),
            ),
        ),
    ]);
    let ev = J::obj(vec![
        ("property_id", J::s(&prop)),
        ("tier", J::s(tier)),
        ("seed", J::Int(seed as i128)),
        ("level", J::s(info.level)),
        ("coverage", coverage),
        (
            "assumptions",
            J::strs(
                &[
                    "LMDB's commit is atomic and its snapshot isolation holds (trusted; named by the properties as the mechanism)",
                    "kill points and yield points are hook-granular (pocket_db::verif::point), not instruction-granular",
                    "power loss / lost page-cache writes are out of scope (the store runs LMDB with NO_SYNC by design)",
                    "the reference model is the harness's reading of the property statements and NIP-01/09",
                ]
                .map(String::from),
            ),
        ),
        ("wall_s", J::Num(wall)),
        ("violations", J::Int(violations)),
    ]);
    let _ = std::fs::create_dir_all(format!("{root}/evidence"));
    let evpath = if release_build() { format!("{root}/evidence/{prop}.release-leg.json") } else { format!("{root}/evidence/{prop}.json") };
    if let Err(e) = std::fs::write(&evpath, ev.to_string_pretty()) {
        println!("HARNESS-ERROR: cannot write {evpath}: {e}");
        if exit == 0 {
            exit = 2;
        }
    }
    println!(
        "runs={} ops={} distinct_nontrivial={} distinct_signatures={} kill_points={} wall={:.1}s truncated_by_other_properties={} violations={}",
        agg.runs,
        agg.ops,
        agg.nontrivial_sigs.len(),
        agg.all_sigs.len(),
        agg.stats.get("fault/kill_points_checked"),
        wall,
        others.len(),
        violations
    );
    for l in violation_lines {
        println!("{l}");
    }
    exit
}

// ------------------------------------------------------------------ replay & co

pub fn cmd_replay(pos: &[String], opts: &BTreeMap<String, String>) -> i32 {
    let path = match pos.first() {
        Some(p) => p,
        None => {
            eprintln!("usage: replay FILE");
            return 2;
        }
    };
    // a replay file of the release-like leg (`rel-...`) is replayed by the release-like binary
    let base = std::path::Path::new(path).file_name().map(|f| f.to_string_lossy().to_string()).unwrap_or_default();
    if base.starts_with("rel-") && !release_build() {
        if let Ok(exe) = std::env::current_exe() {
            if let Some(rel) = exe.parent().and_then(|p| p.parent()).map(|t| t.join("simrel").join("pocket-sim")) {
                if rel.exists() {
                    let mut cmd = Command::new(rel);
                    let _ = cmd.arg("replay").arg(path);
                    if opts.contains_key("verbose") {
                        let _ = cmd.arg("--verbose");
                    }
                    return match cmd.status() {
                        Ok(st) => st.code().unwrap_or(3),
                        Err(_) => 2,
                    };
                }
            }
        }
    }
    let text = match std::fs::read_to_string(path) {
        Ok(t) => t,
        Err(e) => {
            eprintln!("cannot read {path}: {e}");
            return 2;
        }
    };
    let trace = match Trace::from_text(&text) {
        Ok(t) => t,
        Err(e) => {
            eprintln!("cannot parse {path}: {e}");
            return 2;
        }
    };
    let (known_open, _) = load_known(&format!("{}/KNOWN_FINDINGS.txt", verif_root()));
    let verbose = opts.contains_key("verbose");
    crate::runner::watchdog_start();
    let r = run_trace(&trace, &known_open, verbose);
    if opts.contains_key("log") {
        for l in &r.log {
            println!("{l}");
        }
    }
    for k in &r.known {
        println!("KNOWN-FINDING: property={} sig={} {}", k.props.join(","), k.sig, k.detail);
    }
    match r.finding {
        None => {
            println!("replay: no violation ({} ops executed)", r.ops_executed);
            if trace.expect.is_some() {
                println!("replay: the file expected: {}", trace.expect.unwrap());
            }
            0
        }
        Some(f) => {
            println!("REPRODUCED clause={} props={} op={} :: {}", f.clause, f.props.join(","), f.op_index, f.detail);
            if f.props.is_empty() {
                2
            } else {
                1
            }
        }
    }
}

pub fn cmd_gen(opts: &BTreeMap<String, String>) -> i32 {
    let prop = opts.get("prop").cloned().unwrap_or_else(|| "C04".into());
    let i: u64 = opts.get("i").and_then(|s| s.parse().ok()).unwrap_or(0);
    let rs: u64 = if let Some(s) = opts.get("run-seed") {
        s.parse().unwrap_or(1)
    } else {
        let seed: u64 = opts.get("seed").and_then(|s| s.parse().ok()).unwrap_or(1);
        run_seed(seed, &label(&prop), i)
    };
    print!("{}", gen_trace_i(&prop, rs, i).to_text());
    0
}

pub fn cmd_minimize(pos: &[String], opts: &BTreeMap<String, String>) -> i32 {
    if pos.len() < 2 {
        eprintln!("usage: minimize IN OUT --clause C --props P1,P2");
        return 2;
    }
    let text = match std::fs::read_to_string(&pos[0]) {
        Ok(t) => t,
        Err(_) => return 2,
    };
    let trace = match Trace::from_text(&text) {
        Ok(t) => t,
        Err(e) => {
            eprintln!("{e}");
            return 2;
        }
    };
    let (known_open, _) = load_known(&format!("{}/KNOWN_FINDINGS.txt", verif_root()));
    let target = Target {
        clause: opts.get("clause").cloned().unwrap_or_default(),
        props: opts.get("props").map(|s| s.split(',').map(|x| x.to_string()).collect()).unwrap_or_default(),
    };
    let mut m = minimize(&trace, &target, &known_open);
    m.expect = Some(format!("{} {}", target.clause, target.props.join(",")));
    if std::fs::write(&pos[1], m.to_text()).is_err() {
        return 2;
    }
    println!("minimised {} ops -> {} ops", trace.ops.len() + trace.threads.iter().map(|t| t.len()).sum::<usize>(), m.ops.len() + m.threads.iter().map(|t| t.len()).sum::<usize>());
    0
}

/// Run N seeds twice, at two different worker counts, and require identical event-log hashes.
pub fn cmd_selftest(opts: &BTreeMap<String, String>) -> i32 {
    let props: Vec<String> = opts
        .get("prop")
        .map(|p| p.split(',').map(|s| s.to_string()).collect())
        .unwrap_or_else(|| ["C04", "C05", "C09", "C12", "C13", "C14", "C16"].iter().map(|s| s.to_string()).collect());
    let runs: u64 = opts.get("runs").and_then(|s| s.parse().ok()).unwrap_or(200);
    let seed: u64 = opts.get("seed").and_then(|s| s.parse().ok()).unwrap_or(7);
    let exe = std::env::current_exe().expect("current_exe");
    let mut bad = 0;
    for prop in &props {
        let a = spawn_workers(prop, seed, runs, 16, 600, &exe, false, "quick");
        let b = spawn_workers(prop, seed, runs, 3, 600, &exe, false, "quick");
        let mut diff = 0;
        for (i, h) in &a.loghashes {
            if b.loghashes.get(i) != Some(h) {
                diff += 1;
                if diff <= 3 {
                    println!("NONDETERMINISM property={prop} run={i}: {} vs {:?}", h, b.loghashes.get(i));
                }
            }
        }
        println!("determinism {prop}: {} runs x2 (16 and 3 worker processes), {} differing event-log hashes", a.loghashes.len(), diff);
        if diff > 0 || a.loghashes.len() as u64 != runs || b.loghashes.len() as u64 != runs {
            bad += 1;
        }
    }
    if bad > 0 {
        2
    } else {
        0
    }
}

/// `pocket-sim fidelity --runs N --seed S`: real fork + SIGKILL vs the snapshot stub
pub fn cmd_fidelity(opts: &BTreeMap<String, String>) -> i32 {
    let runs: u64 = opts.get("runs").and_then(|s| s.parse().ok()).unwrap_or(50);
    let seed: u64 = opts.get("seed").and_then(|s| s.parse().ok()).unwrap_or(1);
    let rep = crate::fidelity::run_fidelity(seed, runs);
    println!("FIDELITY attempted={} compared={} event_map_identical={} mismatches={}", rep.attempted, rep.compared, rep.event_map_identical, rep.mismatches.len());
    for (k, v) in &rep.by_point {
        println!("FIDELITY-POINT {k} {v}");
    }
    for m in rep.mismatches.iter().take(5) {
        println!("FIDELITY-MISMATCH {m}");
    }
    if rep.mismatches.is_empty() {
        0
    } else {
        2
    }
}
