//! Concurrent mode (placeholder; filled in below)
use crate::exec::RunResult;
use crate::minimize::Target;
use crate::spec::*;
use std::collections::BTreeSet;
use std::path::PathBuf;

pub fn generate(_rs: u64) -> Trace {
    unimplemented!()
}
pub fn run_conc(_t: &Trace, _scratch: PathBuf, _known: &BTreeSet<String>, _verbose: bool) -> RunResult {
    unimplemented!()
}
pub fn minimize_conc(t: &Trace, _target: &Target, _known: &BTreeSet<String>) -> Trace {
    t.clone()
}
