//! Concurrent mode: 2-4 REAL OS threads share one Store. A controller releases exactly one
//! of them at a time; threads hand control back at every `pocket_db::verif` yield point
//! (named points, read-transaction creation, writer-lock acquisition), so one schedule
//! (a list of thread indexes) is one exactly repeatable execution. LMDB's writer mutex is
//! modelled by the controller: a thread is only released into `write_txn()` while no other
//! thread holds the lock, so no thread ever blocks inside liblmdb.
//!
//! Oracle: linearizability against the reference model, searched over all orders
//! consistent with real time (invoke/return stamped with the controller's step counter),
//! trying the writer-lock grant order first; the final observation of the real store must
//! equal the model state at the end of the same linearization.

use crate::exec::{Finding, RunResult, Stats};
use crate::gen::{profile, Gen};
use crate::minimize::Target;
use crate::model::*;
use crate::obs::{self, ObsOpts};
use crate::real::{self, StoreOutcome};
use crate::rng::{fnv1a, Rng};
use crate::spec::*;
use pocket_db::Store;
use pocket_types::OwnedEvent;
use std::cell::Cell;
use std::collections::{BTreeMap, BTreeSet};
use std::path::PathBuf;
use std::sync::{Arc, Condvar, Mutex};
use std::time::Duration;

thread_local! {
    static TID: Cell<Option<usize>> = const { Cell::new(None) };
}

#[derive(Clone, Copy, PartialEq, Eq, Debug)]
enum St {
    NotStarted,
    Running,
    Parked(&'static str),
    WaitWriter,
    /// inside mmap-append's Deref, holding the map's read lock, about to take it a second time
    WaitMapRead,
    /// inside mmap-append's resize, about to take the map's write lock
    WaitMapWrite,
    /// about to remap the event map while a reader holds references into it (see `ref_hazard`)
    WaitRefHazard,
    Done,
}

struct CtlState {
    status: Vec<St>,
    current: Option<usize>,
    writer: Option<usize>,
    step: u64,
    /// (step, thread, where it was released from)
    events: Vec<(u64, usize, String)>,
    /// order in which the writer lock was granted: thread indexes
    grants: Vec<usize>,
    /// op currently executing per thread
    cur_op: Vec<usize>,
    /// (thread, op index) in grant order
    grant_ops: Vec<(usize, usize)>,
    hung: bool,
    /// threads currently holding the event map's read lock inside Deref
    map_readers: Vec<bool>,
    /// a thread waiting for the event map's write lock (std's RwLock then blocks new readers)
    map_write_waiting: Option<usize>,
    /// a modelled dead-lock was found: let the threads run out without lock modelling
    draining: bool,
    map_deadlock: Option<String>,
    /// the operation a thread is executing is a pure reader (query or lookup returning events)
    reader_op: Vec<bool>,
    /// events read from the map by the thread's current operation (references it holds)
    refs_in_flight: Vec<u32>,
    /// a store reached the remap of the event map while a reader held references into it
    ref_hazard: Option<String>,
    /// the open finding is listed: keep the writer back until the readers have finished (the
    /// real code would hand the reader unmapped memory when the kernel moves the mapping)
    avoid_ref_hazard: bool,
}

pub struct Ctl {
    m: Mutex<CtlState>,
    cv: Condvar,
    /// number of completed remaps of the event map (growth detection for held references)
    resizes: std::sync::atomic::AtomicU64,
}

impl Ctl {
    fn new(n: usize) -> Ctl {
        Ctl {
            m: Mutex::new(CtlState {
                status: vec![St::NotStarted; n],
                current: None,
                writer: None,
                step: 0,
                events: vec![],
                grants: vec![],
                cur_op: vec![0; n],
                grant_ops: vec![],
                hung: false,
                map_readers: vec![false; n],
                map_write_waiting: None,
                draining: false,
                map_deadlock: None,
                reader_op: vec![false; n],
                refs_in_flight: vec![0; n],
                ref_hazard: None,
                avoid_ref_hazard: false,
            }),
            cv: Condvar::new(),
            resizes: std::sync::atomic::AtomicU64::new(0),
        }
    }

    /// called by an application thread: give control back and wait to be released again
    fn yield_at(&self, t: usize, st: St) {
        let mut g = self.m.lock().unwrap();
        g.status[t] = st;
        g.current = None;
        self.cv.notify_all();
        while g.current != Some(t) {
            g = self.cv.wait(g).unwrap();
        }
        g.status[t] = St::Running;
    }

    fn step(&self) -> u64 {
        self.m.lock().unwrap().step
    }

    fn done(&self, t: usize) {
        let mut g = self.m.lock().unwrap();
        if g.writer == Some(t) {
            g.writer = None;
        }
        g.status[t] = St::Done;
        g.current = None;
        self.cv.notify_all();
    }

    fn release_writer_if_held(&self, t: usize) {
        let mut g = self.m.lock().unwrap();
        if g.writer == Some(t) {
            g.writer = None;
        }
    }
}

static MAP_CTL: Mutex<Option<Arc<Ctl>>> = Mutex::new(None);

/// set when the real-thread probe did NOT confirm that a recursive read dead-locks against a
/// queued writer on this platform: the lock model is then left out
pub static NO_MAPLOCK_MODEL: std::sync::atomic::AtomicBool = std::sync::atomic::AtomicBool::new(false);

/// Handler for the yield hooks inside the (vendored) mmap-append: models the two read locks of
/// `Deref::deref` and the write lock of `resize` as std's writer-preferring RwLock behaves
/// (a new reader waits while a writer waits), without ever letting a real thread block.
fn map_hook(name: &'static str) {
    let t = match TID.with(|c| c.get()) {
        Some(t) => t,
        None => return,
    };
    let ctl = match MAP_CTL.lock().unwrap().clone() {
        Some(c) => c,
        None => return,
    };
    match name {
        "mmap:deref_between_reads" => {
            let draining = {
                let mut g = ctl.m.lock().unwrap();
                g.map_readers[t] = true;
                g.draining
            };
            if !draining {
                // the second read(): waits while a writer is queued
                ctl.yield_at(t, St::WaitMapRead);
            }
        }
        "mmap:deref_done" => {
            let mut g = ctl.m.lock().unwrap();
            g.map_readers[t] = false;
        }
        "mmap:resize_before_write" => {
            let wait = {
                let mut g = ctl.m.lock().unwrap();
                let holders: Vec<usize> = (0..g.status.len()).filter(|u| *u != t && g.reader_op[*u] && g.refs_in_flight[*u] > 0 && g.status[*u] != St::Done).collect();
                if !holders.is_empty() {
                    if g.ref_hazard.is_none() && !g.draining {
                        g.ref_hazard = Some(format!(
                            "thread {t} (store_event growing event.map) reaches the remap while thread(s) {:?} are inside a query or lookup holding references to events they have already read from the map: the remap may move the mapping, after which those references (and the answer built from them) point into unmapped memory",
                            holders
                        ));
                    }
                    g.avoid_ref_hazard
                } else {
                    false
                }
            };
            if wait {
                ctl.yield_at(t, St::WaitRefHazard);
            }
            {
                let mut g = ctl.m.lock().unwrap();
                g.map_write_waiting = Some(t);
            }
            // write(): waits until no reader holds the lock
            ctl.yield_at(t, St::WaitMapWrite);
            let mut g = ctl.m.lock().unwrap();
            g.map_write_waiting = None;
        }
        "mmap:resize_done" => {
            // every remap goes through here, whichever code path asked for it
            let _ = ctl.resizes.fetch_add(1, std::sync::atomic::Ordering::SeqCst);
        }
        _ => {}
    }
}

struct ConcHooks {
    ctl: Arc<Ctl>,
    /// also yield at the `y:` points (every engine access of the index layer, every read of the
    /// event map): half of the runs (cfg obs_level 1 of a concurrent trace)
    fine: bool,
}

impl pocket_db::verif::Hooks for ConcHooks {
    fn point(&self, name: &'static str) {
        if name == "y:es:read:checked" {
            if let Some(t) = TID.with(|c| c.get()) {
                // (what a thread reads while it holds the writer lock cannot be pulled away by
                // another store's growth)
                let mut g = self.ctl.m.lock().unwrap();
                if g.writer != Some(t) {
                    g.refs_in_flight[t] += 1;
                }
            }
        }
        if name == "vanish:after_query1" || name == "vanish:after_query2" {
            // vanish has copied the ids out of its query's answer and lets go of the references
            if let Some(t) = TID.with(|c| c.get()) {
                self.ctl.m.lock().unwrap().refs_in_flight[t] = 0;
            }
        }
        if name.starts_with("y:") && !self.fine {
            return;
        }
        if let Some(t) = TID.with(|c| c.get()) {
            if name == "es:after_resize" {
                let _ = self.ctl.resizes.fetch_add(1, std::sync::atomic::Ordering::SeqCst);
            }
            if name.ends_with(":after_commit") {
                // LMDB releases its writer mutex inside commit: from here on another thread may
                // take it, although this thread has not returned yet
                self.ctl.release_writer_if_held(t);
            }
            self.ctl.yield_at(t, St::Parked(name));
        }
    }
    fn fail(&self, name: &'static str) -> bool {
        // never fails here, but it is a place where another thread may run
        if let Some(t) = TID.with(|c| c.get()) {
            self.ctl.yield_at(t, St::Parked(name));
        }
        false
    }
    fn writer_enter(&self) {
        if let Some(t) = TID.with(|c| c.get()) {
            {
                // A thread that asks again while the model still has it as the holder has given up
                // its earlier transaction without committing (dropped it): the real lock is free,
                // and the thread competes for it like everybody else. (Had it kept the earlier
                // transaction, the engine would now block it on its own lock - the controller
                // then reports the thread as stuck.)
                let mut g = self.ctl.m.lock().unwrap();
                if g.writer == Some(t) {
                    g.writer = None;
                }
            }
            self.ctl.yield_at(t, St::WaitWriter);
        }
    }
    fn writer_exit(&self) {
        if let Some(t) = TID.with(|c| c.get()) {
            self.ctl.release_writer_if_held(t);
        }
    }
}

/// What an op returned, in comparable form
#[derive(Clone, Debug, PartialEq)]
enum Outcome {
    Store(StoreOutcome),
    Removed(Result<(), String>),
    Vanished(Result<(), String>),
    Has(Result<bool, String>),
    Get(Result<Option<String>, String>),
    Query(QueryOutcomeC),
    Stats(Result<[u64; 4], String>),
    Synced(Result<(), String>),
    IsDeleted(Result<bool, String>),
    AddrDeleted(Result<Option<u64>, String>),
    /// id and bytes of the holder of an address
    Holder(Result<Option<(B32, String)>, String>),
    GetOff(Result<String, String>),
}

#[derive(Clone, Debug, PartialEq)]
enum QueryOutcomeC {
    Ok(Vec<B32>, bool),
    Scraper,
    OtherErr(String),
    Panic(String),
}

#[derive(Clone, Debug)]
struct OpRecord {
    thread: usize,
    idx: usize,
    op: Op,
    invoke: u64,
    ret: u64,
    out: Outcome,
    /// the call ran while every slot of the reader table was taken
    starved: bool,
}

fn bytes_val(b: &[u8]) -> String {
    format!("{}B:{:016x}", b.len(), fnv1a(b))
}

fn exec_op(store: &Store, op: &Op, enc: &BTreeMap<B32, OwnedEvent>, base_offsets: &BTreeMap<B32, u64>) -> Outcome {
    match op {
        Op::Store(e) => {
            let ev = enc.get(&e.id).cloned().unwrap_or_else(|| real::encode(e));
            Outcome::Store(real::store_event(store, &ev))
        }
        Op::Remove(id) => Outcome::Removed(match real::catch(|| store.remove_event(pocket_types::Id::from_bytes(*id))) {
            Ok(Ok(())) => Ok(()),
            Ok(Err(e)) => Err(real::err_name(&e.inner)),
            Err(p) => Err(format!("PANIC:{p}")),
        }),
        Op::Vanish(pk) => {
            let ev = real::vanish_event(pk);
            Outcome::Vanished(match real::catch(|| store.vanish(&ev)) {
                Ok(Ok(())) => Ok(()),
                Ok(Err(e)) => Err(real::err_name(&e.inner)),
                Err(p) => Err(format!("PANIC:{p}")),
            })
        }
        Op::Has(id) => Outcome::Has(match real::catch(|| store.has_event(pocket_types::Id::from_bytes(*id))) {
            Ok(Ok(b)) => Ok(b),
            Ok(Err(e)) => Err(real::err_name(&e.inner)),
            Err(p) => Err(format!("PANIC:{p}")),
        }),
        Op::Get(id) => Outcome::Get(match real::catch(|| store.get_event_by_id(pocket_types::Id::from_bytes(*id)).map(|o| o.map(|e| bytes_val(e.as_bytes())))) {
            Ok(Ok(v)) => Ok(v),
            Ok(Err(e)) => Err(real::err_name(&e.inner)),
            Err(p) => Err(format!("PANIC:{p}")),
        }),
        Op::Query(q) => Outcome::Query(match real::query(store, q) {
            QueryOutcome::Ok(ids, r) => QueryOutcomeC::Ok(ids, r),
            QueryOutcome::Scraper => QueryOutcomeC::Scraper,
            QueryOutcome::OtherErr(e) => QueryOutcomeC::OtherErr(e),
            QueryOutcome::Panic(p) => QueryOutcomeC::Panic(p),
        }),
        Op::Stats => Outcome::Stats(match real::catch(|| store.stats()) {
            Ok(Ok(st)) => {
                let s = &st.index_stats;
                Ok([s.i_index_entries, s.ci_index_entries, s.ac_index_entries, s.akc_index_entries])
            }
            Ok(Err(e)) => Err(real::err_name(&e.inner)),
            Err(p) => Err(format!("PANIC:{p}")),
        }),
        Op::Sync => Outcome::Synced(match real::catch(|| store.sync()) {
            Ok(Ok(())) => Ok(()),
            Ok(Err(e)) => Err(real::err_name(&e.inner)),
            Err(p) => Err(format!("PANIC:{p}")),
        }),
        Op::IsDeleted(id) => Outcome::IsDeleted(match real::catch(|| store.event_is_deleted(pocket_types::Id::from_bytes(*id))) {
            Ok(Ok(b)) => Ok(b),
            Ok(Err(e)) => Err(real::err_name(&e.inner)),
            Err(p) => Err(format!("PANIC:{p}")),
        }),
        Op::AddrDeleted(a) => Outcome::AddrDeleted(match real::catch(|| store.naddr_is_deleted_asof(&real::addr_of(a))) {
            Ok(Ok(t)) => Ok(t.map(|t| t.as_u64())),
            Ok(Err(e)) => Err(real::err_name(&e.inner)),
            Err(p) => Err(format!("PANIC:{p}")),
        }),
        Op::Holder(a) => Outcome::Holder(
            match real::catch(|| {
                let r = if is_replaceable(a.kind) && a.d.is_empty() {
                    store.find_replaceable_event(pocket_types::Pubkey::from_bytes(a.pk), pocket_types::Kind::from_u16(a.kind))
                } else {
                    store.find_parameterized_replaceable_event(&real::addr_of(a))
                };
                r.map(|o| {
                    o.map(|e| {
                        let mut id = [0u8; 32];
                        id.copy_from_slice(e.id().as_slice());
                        (id, bytes_val(e.as_bytes()))
                    })
                })
            }) {
                Ok(Ok(v)) => Ok(v),
                Ok(Err(e)) => Err(real::err_name(&e.inner)),
                Err(p) => Err(format!("PANIC:{p}")),
            },
        ),
        Op::GetOff(id) => Outcome::GetOff(match real::catch(|| match base_offsets.get(id) {
            Some(off) => store.get_event_by_offset(*off).map(|e| bytes_val(e.as_bytes())),
            None => Ok("no-base-offset".to_string()),
        }) {
            Ok(Ok(v)) => Ok(v),
            Ok(Err(e)) => Err(real::err_name(&e.inner)),
            Err(p) => Err(format!("PANIC:{p}")),
        }),
        _ => Outcome::Removed(Ok(())),
    }
}

fn outcome_label(o: &Outcome) -> String {
    match o {
        Outcome::Store(s) => s.label(),
        Outcome::Removed(r) => format!("{:?}", r),
        Outcome::Vanished(r) => format!("{:?}", r),
        Outcome::Has(r) => format!("{:?}", r),
        Outcome::Get(r) => format!("{:?}", r),
        Outcome::Stats(r) => format!("{:?}", r),
        Outcome::Synced(r) => format!("{:?}", r),
        Outcome::IsDeleted(r) => format!("{:?}", r),
        Outcome::AddrDeleted(r) => format!("{:?}", r),
        Outcome::Holder(Ok(Some((id, b)))) => format!("Ok(Some({}:{b}))", short(id)),
        Outcome::Holder(r) => format!("{:?}", r),
        Outcome::GetOff(r) => format!("{:?}", r),
        Outcome::Query(QueryOutcomeC::Ok(ids, red)) => format!("Ok([{}], redacted={red})", ids.iter().map(short).collect::<Vec<_>>().join(",")),
        Outcome::Query(q) => format!("{:?}", q),
    }
}

/// Does the model, in state `m`, allow `op` to return `out`? If so apply it.
fn model_step(m: &mut Model, op: &Op, out: &Outcome, enc: &BTreeMap<B32, OwnedEvent>) -> bool {
    match (op, out) {
        (Op::Store(e), Outcome::Store(so)) => {
            m.note_event(e);
            let ex = m.store_expect(e);
            match so {
                StoreOutcome::Ok(off) => {
                    // under concurrency exactly one of several identical submissions succeeds
                    if ex.refusals.contains(&Refusal::Duplicate) || ex.refusals.contains(&Refusal::Deleted) || ex.refusals.contains(&Refusal::Replaced) {
                        return false;
                    }
                    let len = enc.get(&e.id).map(|x| x.as_bytes().len()).unwrap_or_else(|| e.size());
                    let _ = m.apply_store(e, *off, len);
                    true
                }
                StoreOutcome::Duplicate => ex.refusals.contains(&Refusal::Duplicate),
                StoreOutcome::Deleted => ex.refusals.contains(&Refusal::Deleted),
                StoreOutcome::Replaced => ex.refusals.contains(&Refusal::Replaced) || ex.tie,
                StoreOutcome::InvalidDelete => ex.refusals.contains(&Refusal::InvalidDelete) || ex.malformed,
                StoreOutcome::Other(_) => ex.engine_refusal,
                _ => false,
            }
        }
        (Op::Remove(id), Outcome::Removed(Ok(()))) => {
            let _ = m.apply_remove(id);
            true
        }
        // vanish is generated only against stores of the vanishing key's own events (its targets
        // then come from one snapshot, so that it has one linearization point)
        (Op::Vanish(pk), Outcome::Vanished(Ok(()))) => {
            let _ = m.apply_vanish(pk);
            true
        }
        (Op::Has(id), Outcome::Has(Ok(b))) => m.retrievable.contains(id) == *b,
        (Op::Stats, Outcome::Stats(Ok(c))) => c.iter().all(|x| *x == m.retrievable.len() as u64),
        (Op::Sync, Outcome::Synced(Ok(()))) => true,
        (Op::IsDeleted(id), Outcome::IsDeleted(Ok(b))) => m.deleted_ids.contains(id) == *b,
        (Op::AddrDeleted(a), Outcome::AddrDeleted(Ok(t))) => m.deleted_addrs.get(a).copied() == *t,
        (Op::Holder(a), Outcome::Holder(Ok(v))) => {
            let hs = m.holders(a);
            match v {
                None => hs.is_empty(),
                Some((id, bytes)) => hs.iter().any(|h| h.id == *id) && enc.get(id).map(|e| bytes_val(e.as_bytes())).as_ref() == Some(bytes),
            }
        }
        (Op::GetOff(id), Outcome::GetOff(Ok(v))) => v == "no-base-offset" || enc.get(id).map(|e| bytes_val(e.as_bytes())).as_ref() == Some(v),
        (Op::Get(id), Outcome::Get(Ok(v))) => {
            if m.retrievable.contains(id) {
                let want = enc.get(id).map(|e| bytes_val(e.as_bytes()));
                want.is_some() && *v == want
            } else {
                v.is_none()
            }
        }
        (Op::Query(q), Outcome::Query(qo)) => {
            let out = match qo {
                QueryOutcomeC::Ok(ids, r) => QueryOutcome::Ok(ids.clone(), *r),
                QueryOutcomeC::Scraper => QueryOutcome::Scraper,
                QueryOutcomeC::OtherErr(e) => QueryOutcome::OtherErr(e.clone()),
                QueryOutcomeC::Panic(p) => QueryOutcome::Panic(p.clone()),
            };
            m.query_expect(q).check(q, &out).is_none()
        }
        _ => false,
    }
}

struct Search<'a> {
    recs: &'a [OpRecord],
    per_thread: Vec<Vec<usize>>, // indexes into recs, per thread, in program order
    enc: &'a BTreeMap<B32, OwnedEvent>,
    final_obs: &'a obs::Obs,
    opts: ObsOpts,
    budget: u64,
    leaf_mismatch: Option<String>,
    /// the probe on which the final state first differs, for every order that explains the results
    leaf_keys: BTreeSet<String>,
}

impl<'a> Search<'a> {
    /// DFS over linearizations; `hint` orders the candidates tried first
    fn dfs(&mut self, next: &mut Vec<usize>, m: &Model, hint: &[usize], depth: usize) -> Option<bool> {
        if self.budget == 0 {
            return None;
        }
        self.budget -= 1;
        let total: usize = self.per_thread.iter().map(|v| v.len()).sum();
        if depth == total {
            // leaf: the final observation must be this model state
            let enc = self.enc;
            let f = |id: &B32| enc.get(id).map(|e| e.as_bytes().to_vec());
            let exp = obs::observe_model(m, &f, &self.opts, 0);
            // offsets: compare only probes the real observation has
            return match obs::first_diff(&exp, self.final_obs) {
                None => Some(true),
                Some((k, w, g)) => {
                    if self.leaf_mismatch.is_none() {
                        self.leaf_mismatch = Some(format!("probe {} shows {} but this order requires {}", crate::exec::shorten_key(k), g, w));
                    }
                    if self.leaf_keys.len() < 64 {
                        let _ = self.leaf_keys.insert(k.split('/').next().unwrap_or("").to_string());
                    }
                    Some(false)
                }
            };
        }
        // candidates: the next op of each thread, if no unlinearized op returned before it was invoked
        let mut cands: Vec<usize> = vec![];
        for t in 0..self.per_thread.len() {
            if next[t] < self.per_thread[t].len() {
                let r = self.per_thread[t][next[t]];
                let inv = self.recs[r].invoke;
                let mut blocked = false;
                for u in 0..self.per_thread.len() {
                    if u != t && next[u] < self.per_thread[u].len() {
                        let o = self.per_thread[u][next[u]];
                        if self.recs[o].ret < inv {
                            blocked = true;
                            break;
                        }
                    }
                }
                if !blocked {
                    cands.push(r);
                }
            }
        }
        // hint order first
        cands.sort_by_key(|r| hint.iter().position(|h| h == r).unwrap_or(usize::MAX));
        let mut inconclusive = false;
        for r in cands {
            let rec = &self.recs[r];
            let mut m2 = m.clone();
            // a store that ran with the reader table exhausted may fail with the engine's error:
            // then it is a call without effect
            let starved_failure = rec.starved && matches!(&rec.out, Outcome::Store(StoreOutcome::Other(_)));
            if starved_failure || model_step(&mut m2, &rec.op, &rec.out, self.enc) {
                next[rec.thread] += 1;
                let res = self.dfs(next, &m2, hint, depth + 1);
                next[rec.thread] -= 1;
                match res {
                    Some(true) => return Some(true),
                    Some(false) => {}
                    None => inconclusive = true,
                }
            }
        }
        if inconclusive {
            None
        } else {
            Some(false)
        }
    }
}

// ------------------------------------------------------------------ generation

const T0_CONC: u64 = crate::gen::T0 + 50;

/// `focus`: which property's check asks (biases the scenario choice)
pub fn generate(rs: u64, focus: &str) -> Trace {
    let p = profile("C14");
    let mut g = Gen::new(rs, p);
    // base history
    let nbase = g.rng.range(2, 8) as usize;
    let mut ops = vec![];
    for _ in 0..nbase {
        let e = match g.rng.weighted(&[60, 25, 15]) {
            0 => g.new_event(),
            1 => g.new_version(),
            _ => g.deletion(),
        };
        // conc runs keep events small-to-medium; one in a while a growth-forcing size
        g_apply(&mut g, &e);
        ops.push(Op::Store(e));
    }
    let nthreads = if crate::gen::thorough() { 2 + g.rng.weighted(&[35, 35, 30]) } else { 2 + g.rng.weighted(&[55, 30, 15]) };
    let mut threads: Vec<Vec<Op>> = vec![vec![]; nthreads];
    let mut park_hint = false;
    let scenario = match focus {
        "C04" => g.rng.weighted(&[5, 5, 0, 10, 0, 10, 70, 0, 0, 0, 0, 0, 0, 0, 0, 0, 5]),
        "C15" => g.rng.weighted(&[5, 5, 5, 10, 0, 30, 35, 10, 0, 0, 0, 0, 0, 0, 0, 0, 0]),
        "C18" => g.rng.weighted(&[0, 0, 0, 0, 25, 10, 0, 0, 35, 0, 30, 0, 0, 0, 0, 0, 15]),
        "C09" => g.rng.weighted(&[5, 70, 0, 5, 0, 15, 0, 0, 0, 0, 0, 0, 0, 0, 5, 0, 25]),
        "C10" => g.rng.weighted(&[0, 0, 10, 0, 0, 20, 0, 65, 0, 0, 0, 0, 0, 0, 5, 0, 10]),
        "C11" => g.rng.weighted(&[0, 5, 40, 0, 0, 15, 0, 10, 0, 0, 0, 0, 0, 0, 30, 0, 25]),
        "C05" => g.rng.weighted(&[0, 25, 0, 25, 15, 15, 0, 0, 0, 0, 0, 0, 0, 1, 0, 20, 15]),
        "C12" => g.rng.weighted(&[15, 5, 0, 0, 0, 10, 0, 10, 0, 0, 0, 60, 0, 0, 0, 0, 0]),
        "C17" => g.rng.weighted(&[0, 10, 0, 0, 10, 15, 0, 0, 10, 40, 10, 0, 0, 0, 0, 5, 15]),
        "C13" => g.rng.weighted(&[10, 0, 0, 10, 0, 20, 60, 0, 0, 0, 0, 0, 0, 0, 0, 0, 0]),
        _ => g.rng.weighted(&[13, 13, 10, 13, 8, 12, 8, 7, 6, 4, 3, 4, 3, 1, 8, 7, 10]),
    };
    let known: Vec<EvSpec> = g.model.events.values().cloned().collect();
    let retr: Vec<B32> = g.model.retrievable.iter().copied().collect();
    match scenario {
        0 => {
            // the same event submitted by every thread (now and then a large one)
            let mut e = g.new_event();
            if g.rng.chance(1, 5) {
                let len = *g.rng.pick(&[4200usize, 17_000, 66_000]);
                let seed = g.rng.next();
                e.content = (0..len).map(|i| (seed.wrapping_mul(i as u64 + 11) >> 12) as u8).collect();
            }
            for t in threads.iter_mut() {
                t.push(Op::Store(e.clone()));
            }
            if g.rng.chance(1, 2) {
                let t = g.rng.usize(nthreads);
                let op = match g.rng.below(4) {
                    0 => Op::Has(e.id),
                    1 => Op::Get(e.id),
                    2 => Op::Stats,
                    _ => Op::Query(QuerySpec { ids: vec![e.id], ..QuerySpec::all_allowed() }),
                };
                let pos = g.rng.usize(threads[t].len() + 1);
                threads[t].insert(pos, op);
            }
        }
        1 => {
            // competing versions at one address
            let first = {
                let mut e = g.new_version();
                if e.addr().is_none() {
                    e.kind = 10000;
                    e.tags.clear();
                }
                e
            };
            let a = first.addr().unwrap();
            for (i, t) in threads.iter_mut().enumerate() {
                let mut e = first.clone();
                e.id = g.rng.bytes32();
                e.at = first.at.saturating_add(g.rng.below(3)).saturating_sub(g.rng.below(2));
                if i == 0 {
                    e = first.clone();
                }
                t.push(Op::Store(e));
            }
            if g.rng.chance(2, 3) {
                let t = g.rng.usize(nthreads);
                let q = match g.rng.below(3) {
                    // one range
                    0 => QuerySpec { authors: vec![a.pk], kinds: vec![a.kind], ..QuerySpec::all_allowed() },
                    // several ranges, each of which finds the holder of the moment: one snapshot
                    // must serve them all
                    1 => QuerySpec { authors: vec![a.pk, g.rng.bytes32()], kinds: vec![a.kind, 1, 7], ..QuerySpec::all_allowed() },
                    _ => {
                        let mut authors = g.authors.clone();
                        if !authors.contains(&a.pk) {
                            authors.push(a.pk);
                        }
                        QuerySpec { authors, ..QuerySpec::all_allowed() }
                    }
                };
                threads[t].push(Op::Query(q));
            }
            if g.rng.chance(2, 3) {
                // the address looked up directly, once or twice, while the versions compete
                let t = g.rng.usize(nthreads);
                for _ in 0..(1 + g.rng.usize(2)) {
                    let pos = if g.rng.chance(1, 2) { 0 } else { g.rng.usize(threads[t].len() + 1) };
                    threads[t].insert(pos, Op::Holder(a.clone()));
                }
            }
        }
        2 => {
            // a deletion request racing the store of its target (which now and then does not fit
            // into the map any more, so that the store has to grow it on the way)
            let mut target = g.new_event();
            if g.rng.chance(1, 2) {
                let len = *g.rng.pick(&[700usize, 1500, 2100, 3900]) + g.rng.usize(64);
                let seed = g.rng.next();
                target.content = (0..len).map(|i| (seed.wrapping_mul(i as u64 + 5) >> 9) as u8).collect();
            }
            let del = EvSpec {
                id: g.rng.bytes32(),
                pk: target.pk,
                kind: 5,
                at: target.at.saturating_add(1),
                tags: vec![vec!["e".into(), hex(&target.id)]],
                content: vec![],
            };
            threads[0].push(Op::Store(target.clone()));
            threads[1].push(Op::Store(del));
            if nthreads > 2 {
                threads[2].push(Op::Get(target.id));
                if g.rng.chance(1, 2) {
                    threads[2].push(Op::Store(target.clone()));
                }
            }
            if g.rng.chance(1, 2) {
                // the marker polled meanwhile: once set it stays
                let t = g.rng.usize(nthreads);
                for _ in 0..(1 + g.rng.usize(2)) {
                    let pos = g.rng.usize(threads[t].len() + 1);
                    threads[t].insert(pos, Op::IsDeleted(target.id));
                }
            }
        }
        3 => {
            // stores racing a multi-id query (one snapshot must explain the whole answer)
            let mut ids = vec![];
            let nw = nthreads - 1;
            for t in 0..nw {
                let n = 1 + g.rng.usize(2);
                for _ in 0..n {
                    let e = g.new_event();
                    if !is_ephemeral(e.kind) {
                        ids.push(e.id);
                    }
                    threads[t].push(Op::Store(e));
                }
            }
            if !retr.is_empty() {
                ids.push(*g.rng.pick(&retr));
            }
            g.rng.shuffle(&mut ids);
            if g.rng.chance(1, 6) {
                // a long id list: dozens of ids nobody has, spread between the interesting ones
                let pad = g.rng.range(60, 140) as usize;
                for _ in 0..pad {
                    let pos = g.rng.usize(ids.len() + 1);
                    ids.insert(pos, g.rng.bytes32());
                }
            }
            let q = match g.rng.below(3) {
                0 | 1 => QuerySpec { ids: ids.clone(), ..QuerySpec::all_allowed() },
                _ => QuerySpec { authors: g.authors.clone(), ..QuerySpec::all_allowed() },
            };
            threads[nw].push(Op::Query(q.clone()));
            if g.rng.chance(1, 2) {
                threads[nw].push(Op::Query(q));
            }
        }
        4 => {
            // removal racing queries and lookups
            if let Some(id) = retr.first().copied() {
                threads[0].push(Op::Remove(id));
                let e = g.model.events[&id].clone();
                threads[1].push(Op::Query(QuerySpec { authors: vec![e.pk], ..QuerySpec::all_allowed() }));
                threads[1].push(Op::Get(id));
                if nthreads > 2 {
                    threads[2].push(Op::Store(e));
                }
            } else {
                let e = g.new_event();
                threads[0].push(Op::Store(e.clone()));
                threads[1].push(Op::Has(e.id));
            }
        }
        6 => {
            // growth races: every thread appends events that straddle chunk boundaries,
            // ephemeral ones (not indexed) among them
            for t in 0..nthreads {
                let n = 1 + g.rng.usize(2);
                for _ in 0..n {
                    let mut e = g.new_event();
                    if g.rng.chance(1, 3) {
                        e.kind = *g.rng.pick(&[20000u16, 25000, 29999]);
                    }
                    let len = *g.rng.pick(&[700usize, 1500, 2100, 3900, 6200]) + g.rng.usize(64);
                    let seed = g.rng.next();
                    e.content = (0..len).map(|i| (seed.wrapping_mul(i as u64 + 3) >> 11) as u8).collect();
                    threads[t].push(Op::Store(e));
                }
            }
            // somebody syncs / reads the statistics meanwhile
            if g.rng.chance(1, 2) {
                let t = g.rng.usize(nthreads);
                let pos = g.rng.usize(threads[t].len() + 1);
                threads[t].insert(pos, if g.rng.chance(1, 2) { Op::Sync } else { Op::Stats });
            }
            // somebody holds a reference to an early event while the others append, and reads
            // an early event back at the end
            if let Some(id) = retr.first().copied() {
                let t = g.rng.usize(nthreads);
                threads[t].insert(0, Op::TakeRef(id));
                threads[t].push(Op::Get(id));
            }
            // and somebody reads an early event by its offset while the map grows under it
            if !g.model.offsets.is_empty() && g.rng.chance(1, 2) {
                let ids: Vec<B32> = g.model.offsets.values().map(|(id, _)| *id).collect();
                let t = g.rng.usize(nthreads);
                for _ in 0..(1 + g.rng.usize(2)) {
                    let pos = g.rng.usize(threads[t].len() + 1);
                    threads[t].insert(pos, Op::GetOff(*g.rng.pick(&ids)));
                }
            }
        }
        7 => {
            // a FOREIGN deletion request racing the store of the event / address it names
            let target = if g.rng.chance(1, 2) { g.new_event() } else { g.new_version() };
            let others: Vec<B32> = g.authors.iter().copied().filter(|a| *a != target.pk).collect();
            let attacker = others.first().copied().unwrap_or([0x77; 32]);
            let mut tags: Vec<Vec<String>> = vec![];
            let nfill = g.rng.usize(4);
            for _ in 0..nfill {
                tags.push(vec!["e".into(), hex(&g.rng.bytes32())]);
            }
            if let (Some(a), true) = (target.addr(), g.rng.chance(1, 3)) {
                tags.push(vec!["a".into(), format!("{}:{}:{}", a.kind, hex(&a.pk), String::from_utf8(a.d).unwrap_or_default())]);
            } else {
                tags.push(vec!["e".into(), hex(&target.id)]);
            }
            g.rng.shuffle(&mut tags);
            let del = EvSpec { id: g.rng.bytes32(), pk: attacker, kind: 5, at: target.at.saturating_add(1), tags, content: vec![] };
            threads[0].push(Op::Store(target.clone()));
            threads[1].push(Op::Store(del));
            if nthreads > 2 {
                threads[2].push(Op::Has(target.id));
                threads[2].push(Op::Get(target.id));
            }
            if g.rng.chance(1, 2) {
                threads[0].push(Op::Get(target.id));
            }
            if g.rng.chance(1, 2) {
                // no marker may ever show on the victim's event or address
                let t = g.rng.usize(nthreads);
                let pos = g.rng.usize(threads[t].len() + 1);
                let op = match (target.addr(), g.rng.chance(1, 2)) {
                    (Some(a), true) => Op::AddrDeleted(a),
                    _ => Op::IsDeleted(target.id),
                };
                threads[t].insert(pos, op);
            }
        }
        9 => {
            // the statistics polled while others store and remove: every report is one state
            for t in 0..nthreads - 1 {
                let n = 1 + g.rng.usize(3);
                for _ in 0..n {
                    if !retr.is_empty() && g.rng.chance(1, 3) {
                        threads[t].push(Op::Remove(*g.rng.pick(&retr)));
                    } else if g.rng.chance(1, 4) {
                        threads[t].push(Op::Store(g.new_version()));
                    } else {
                        threads[t].push(Op::Store(g.new_event()));
                    }
                }
            }
            for _ in 0..(1 + g.rng.usize(3)) {
                threads[nthreads - 1].push(Op::Stats);
            }
            // and asks for markers and holders in between (read-only calls that share the index
            // layer with the writers)
            if !known.is_empty() && g.rng.chance(1, 2) {
                for _ in 0..(1 + g.rng.usize(2)) {
                    let e = g.rng.pick(&known).clone();
                    let op = match (e.addr(), g.rng.below(3)) {
                        (Some(a), 0) => Op::AddrDeleted(a),
                        (Some(a), 1) => Op::Holder(a),
                        (None, 0) => Op::AddrDeleted(AddrKey { kind: 30000, pk: e.pk, d: b"x".to_vec() }),
                        _ => Op::IsDeleted(e.id),
                    };
                    let pos = g.rng.usize(threads[nthreads - 1].len() + 1);
                    threads[nthreads - 1].insert(pos, op);
                }
            }
        }
        10 => {
            // a key vanishes while the same key keeps publishing (plain events only: the
            // gift-wrap pass of vanish reads a second snapshot)
            let pk = known.iter().map(|e| e.pk).next().unwrap_or(g.authors[0]);
            threads[0].push(Op::Vanish(pk));
            for t in 1..nthreads {
                let n = 1 + g.rng.usize(2);
                for _ in 0..n {
                    let mut e = g.new_event();
                    e.pk = pk;
                    // plain regular events: their stores succeed whatever part of the vanish has
                    // happened (vanish removes its targets one transaction at a time, so an
                    // operation whose answer depends on a target would see it half done)
                    e.kind = 1;
                    e.tags.retain(|t| t.first().map(|x| x != "p" && x != "P").unwrap_or(true));
                    threads[t].push(Op::Store(e));
                }
            }
            if g.rng.chance(1, 2) {
                threads[0].push(Op::Vanish(pk));
            }
        }
        11 => {
            // calls that must be refused (a duplicate, an older version, a deleted event, a request
            // naming somebody else's event) among stores of unrelated plain events
            let mut refused: Vec<EvSpec> = vec![];
            for id in retr.iter().take(3) {
                refused.push(g.model.events[id].clone());
            }
            if let Some(h) = known.iter().find(|e| e.addr().is_some() && g.model.retrievable.contains(&e.id) && e.at > 0) {
                let mut older = h.clone();
                older.id = g.rng.bytes32();
                older.at = h.at - 1;
                refused.push(older);
            }
            if let Some(v) = known.iter().find(|e| g.model.retrievable.contains(&e.id)) {
                let others: Vec<B32> = g.authors.iter().copied().filter(|a| *a != v.pk).collect();
                if let Some(att) = others.first() {
                    refused.push(EvSpec { id: g.rng.bytes32(), pk: *att, kind: 5, at: v.at.saturating_add(1), tags: vec![vec!["e".into(), hex(&v.id)]], content: vec![] });
                }
            }
            if refused.is_empty() {
                refused.push(g.new_event());
            }
            for (k, e) in refused.into_iter().enumerate() {
                threads[k % (nthreads - 1).max(1)].push(Op::Store(e));
            }
            let mut fresh_ids = vec![];
            for _ in 0..(1 + g.rng.usize(3)) {
                let mut e = g.new_event();
                e.kind = 1;
                let len = *g.rng.pick(&[0usize, 30, 300, 900, 2100]) + g.rng.usize(40);
                let seed = g.rng.next();
                e.content = (0..len).map(|i| (seed.wrapping_mul(i as u64 + 7) >> 10) as u8).collect();
                fresh_ids.push(e.id);
                threads[nthreads - 1].push(Op::Store(e));
            }
            if g.rng.chance(1, 2) {
                let t = g.rng.usize(nthreads);
                threads[t].push(Op::Get(*g.rng.pick(&fresh_ids)));
            }
            for t in threads.iter_mut() {
                let mut v = std::mem::take(t);
                g.rng.shuffle(&mut v);
                *t = v;
            }
        }
        12 => {
            // a deletion request stored while every reader slot is taken (the engine refuses its
            // lookups: the call fails without effect, or succeeds; either way nobody else is
            // held up), plain stores by the others, then the request once more without the fault
            let victim = known.iter().find(|e| g.model.retrievable.contains(&e.id)).cloned();
            let pk = victim.as_ref().map(|v| v.pk).unwrap_or(g.authors[0]);
            let mut tags: Vec<Vec<String>> = vec![];
            if let Some(v) = &victim {
                tags.push(vec!["e".into(), hex(&v.id)]);
            }
            tags.push(vec!["e".into(), hex(&g.rng.bytes32())]);
            let at = victim.as_ref().map(|v| v.at.saturating_add(1)).unwrap_or(T0_CONC);
            let del = EvSpec { id: g.rng.bytes32(), pk, kind: 5, at, tags, content: vec![] };
            threads[0].push(Op::Starve);
            threads[0].push(Op::Store(del.clone()));
            threads[0].push(Op::Store(del));
            for t in 1..nthreads {
                for _ in 0..(1 + g.rng.usize(2)) {
                    let mut e = g.new_event();
                    e.kind = 1;
                    threads[t].push(Op::Store(e));
                }
            }
        }
        13 if g.rng.chance(1, 2) => {
            // a scrape over more than a thousand events (pages of 512 / 1024 entries) while the
            // newest and the oldest of them are removed: the answer is that of one state
            let pk = g.authors[0];
            let n = g.rng.range(1030, 1120) as usize;
            let mut first = None;
            let mut lastid = None;
            for i in 0..n {
                let e = EvSpec { id: g.rng.bytes32(), pk, kind: 1, at: crate::gen::T0 + 1000 + i as u64, tags: vec![], content: vec![(i & 0xff) as u8] };
                if i == 0 {
                    first = Some(e.id);
                }
                lastid = Some(e.id);
                g_apply(&mut g, &e);
                ops.push(Op::Store(e));
            }
            threads[0].push(Op::Query(QuerySpec::all_allowed()));
            threads[1].push(Op::Remove(lastid.unwrap()));
            threads[1].push(Op::Remove(first.unwrap()));
            if nthreads > 2 {
                threads[2].push(Op::Query(QuerySpec { authors: vec![pk], ..QuerySpec::all_allowed() }));
            }
        }
        14 => {
            // deletion requests for one address, with different times, racing one another and a
            // version of the address dated between them; the deletion time is polled meanwhile: it
            // never goes back, and what it covers stays refused
            let mut v = g.new_version();
            if v.addr().is_none() {
                v.kind = if g.rng.chance(1, 2) { 10002 } else { 30017 };
                v.tags.retain(|t| t.first().map(|x| x != "d").unwrap_or(true));
                if v.kind >= 30000 {
                    v.tags.insert(0, vec!["d".into(), (*g.rng.pick(&["", "x", "conc"])).to_string()]);
                }
            }
            v.id = g.rng.bytes32();
            v.at = v.at.clamp(10, u64::MAX - 10);
            let a = v.addr().unwrap();
            let atag = vec!["a".to_string(), format!("{}:{}:{}", a.kind, hex(&a.pk), String::from_utf8(a.d.clone()).unwrap_or_default())];
            let nreq = 2 + g.rng.usize(2);
            for k in 0..nreq {
                let at = match k {
                    0 => v.at + 2,
                    1 => v.at - 2,
                    _ => v.at.saturating_add(g.rng.below(5)).saturating_sub(2),
                };
                let del = EvSpec { id: g.rng.bytes32(), pk: a.pk, kind: 5, at, tags: vec![atag.clone()], content: vec![] };
                threads[k % nthreads].push(Op::Store(del));
            }
            let t = g.rng.usize(nthreads);
            let pos = g.rng.usize(threads[t].len() + 1);
            threads[t].insert(pos, Op::Store(v.clone()));
            let t = g.rng.usize(nthreads);
            for _ in 0..(1 + g.rng.usize(3)) {
                let pos = g.rng.usize(threads[t].len() + 1);
                threads[t].insert(pos, if g.rng.chance(3, 4) { Op::AddrDeleted(a.clone()) } else { Op::Holder(a.clone()) });
            }
            if g.rng.chance(1, 3) {
                let t = g.rng.usize(nthreads);
                threads[t].push(Op::Store(v.clone()));
            }
        }
        15 => {
            // readers among themselves: two to four threads ask different questions (tag, author
            // and tag, kind and tag, author and kind, ids, holders, markers) of a store that holds
            // tagged events, with at most one writer beside them. Whatever the readers share
            // (scratch buffers, memoised bounds, cached positions) must not leak from one
            // question into another: every answer is the exact answer of a state.
            let mut tagged: Vec<EvSpec> = vec![];
            for _ in 0..g.rng.range(3, 7) {
                let mut e = g.new_event();
                let letter = *g.rng.pick(&["t", "p", "e", "r", "x"]);
                let val = (*g.rng.pick(&["nostr", "x", "y", "", "conc", "other"])).to_string();
                e.tags.push(vec![letter.to_string(), val]);
                if g.rng.chance(1, 3) {
                    e.tags.push(vec!["t".into(), "shared".into()]);
                }
                g_apply(&mut g, &e);
                tagged.push(e.clone());
                ops.push(Op::Store(e));
            }
            let writer = if g.rng.chance(1, 2) { Some(nthreads - 1) } else { None };
            for t in 0..nthreads {
                if Some(t) == writer {
                    let mut e = g.new_event();
                    e.tags.push(vec!["t".into(), "shared".into()]);
                    threads[t].push(Op::Store(e));
                    continue;
                }
                for _ in 0..(1 + g.rng.usize(3)) {
                    let e = g.rng.pick(&tagged).clone();
                    let own: Vec<(String, String)> = e.tags.iter().filter(|t| t.len() >= 2 && t[0].len() == 1 && t[0].chars().all(|c| c.is_ascii_alphabetic())).map(|t| (t[0].clone(), t[1].clone())).collect();
                    let base = QuerySpec::all_allowed();
                    let op = match (g.rng.below(8), own.is_empty()) {
                        (0, false) | (1, false) => {
                            let (l, v) = g.rng.pick(&own).clone();
                            Op::Query(QuerySpec { tags: vec![(l.chars().next().unwrap(), vec![v])], ..base })
                        }
                        (2, false) => {
                            let (l, v) = g.rng.pick(&own).clone();
                            Op::Query(QuerySpec { authors: vec![e.pk], tags: vec![(l.chars().next().unwrap(), vec![v])], ..base })
                        }
                        (3, false) => {
                            let (l, v) = g.rng.pick(&own).clone();
                            Op::Query(QuerySpec { kinds: vec![e.kind], tags: vec![(l.chars().next().unwrap(), vec![v])], ..base })
                        }
                        (4, _) => Op::Query(QuerySpec { authors: vec![e.pk], kinds: vec![e.kind], ..base }),
                        (5, _) => Op::Query(QuerySpec { ids: vec![e.id], ..base }),
                        (6, _) => match e.addr() {
                            Some(a) => Op::Holder(a),
                            None => Op::Get(e.id),
                        },
                        _ => match e.addr() {
                            Some(a) => Op::AddrDeleted(a),
                            None => Op::IsDeleted(e.id),
                        },
                    };
                    threads[t].push(op);
                }
            }
        }
        16 => {
            // ask, be overtaken inside the helper, ask again: thread 0 asks a question (holder,
            // marker, lookup, query), is left parked inside the index layer while thread 1 completes
            // an operation that changes the answer, and asks the same question once more. What
            // the first call leaves behind (a memo, a cached position) must not answer the second.
            // (`blocker=1` in the cfg line of a concurrent trace: schedule policy "park thread 0
            // inside a helper across a complete operation of another thread")
            park_hint = true;
            let mut e1 = g.new_version();
            if e1.addr().is_none() {
                e1.kind = *g.rng.pick(&[10002u16, 0, 30023]);
                e1.tags.retain(|t| t.first().map(|x| x != "d").unwrap_or(true));
                if e1.kind >= 30000 {
                    e1.tags.insert(0, vec!["d".into(), "park".into()]);
                }
            }
            e1.id = g.rng.bytes32();
            e1.at = e1.at.clamp(10, u64::MAX - 10);
            e1.tags.push(vec!["t".into(), "parked".into()]);
            let a = e1.addr().unwrap();
            let holder_exists = g.model.holders(&a).iter().all(|h| h.at < e1.at) && g.model.deleted_addrs.get(&a).map_or(true, |t| *t < e1.at);
            g_apply(&mut g, &e1);
            ops.push(Op::Store(e1.clone()));
            let atag = vec!["a".to_string(), format!("{}:{}:{}", a.kind, hex(&a.pk), String::from_utf8(a.d.clone()).unwrap_or_default())];
            let mut e2 = e1.clone();
            e2.id = g.rng.bytes32();
            e2.at = e1.at + 1;
            let del_a = EvSpec { id: g.rng.bytes32(), pk: a.pk, kind: 5, at: e1.at + 2, tags: vec![atag], content: vec![] };
            let del_e = EvSpec { id: g.rng.bytes32(), pk: a.pk, kind: 5, at: e1.at + 2, tags: vec![vec!["e".into(), hex(&e1.id)]], content: vec![] };
            let _ = holder_exists;
            let base = QuerySpec::all_allowed();
            // (an address of somebody else, same kind and identifier: whatever happens to `a`
            // must never show there)
            let other_pk = g.authors.iter().copied().find(|x| *x != a.pk).unwrap_or([0x6b; 32]);
            let foreign = AddrKey { kind: a.kind, pk: other_pk, d: a.d.clone() };
            let (question, change): (Op, Op) = match g.rng.below(if focus == "C10" { 14 } else { 11 }) {
                10 | 11 | 12 | 13 => (Op::AddrDeleted(foreign.clone()), Op::Store(del_a.clone())),
                0 | 1 => (Op::Holder(a.clone()), Op::Store(e2.clone())),
                2 => (Op::Holder(a.clone()), Op::Remove(e1.id)),
                3 => (Op::AddrDeleted(a.clone()), Op::Store(del_a.clone())),
                4 => (Op::IsDeleted(e1.id), Op::Store(del_e.clone())),
                5 => (Op::Get(e1.id), Op::Remove(e1.id)),
                6 => (Op::Has(e1.id), Op::Store(e2.clone())),
                7 => (Op::Query(QuerySpec { authors: vec![a.pk], kinds: vec![a.kind], ..base.clone() }), Op::Store(e2.clone())),
                8 => (Op::Query(QuerySpec { tags: vec![('t', vec!["parked".to_string()])], ..base.clone() }), Op::Remove(e1.id)),
                _ => (Op::Stats, Op::Remove(e1.id)),
            };
            threads[0].push(question.clone());
            threads[0].push(question.clone());
            if let (Op::AddrDeleted(_), true) = (&question, g.rng.chance(1, 2)) {
                // what the deletion covers must be refused afterwards
                threads[0].push(Op::Store(e1.clone()));
            }
            threads[1].push(change);
            for t in 2..nthreads {
                let mut e = g.new_event();
                e.kind = 1;
                threads[t].push(Op::Store(e));
            }
        }
        8 => {
            // one event stored, removed and stored again by different threads
            let e = if g.rng.chance(1, 2) { g.new_event() } else { g.new_version() };
            threads[0].push(Op::Store(e.clone()));
            threads[1].push(Op::Remove(e.id));
            threads[1].push(Op::Store(e.clone()));
            if g.rng.chance(1, 2) {
                threads[0].push(Op::Has(e.id));
            }
            if nthreads > 2 {
                threads[2].push(Op::Remove(e.id));
                threads[2].push(Op::Get(e.id));
                if g.rng.chance(1, 2) {
                    threads[2].push(Op::Store(e.clone()));
                }
            }
        }
        _ => {
            // a random mix
            for t in 0..nthreads {
                let n = 1 + g.rng.usize(if crate::gen::thorough() { 4 } else { 3 });
                for _ in 0..n {
                    if g.rng.chance(1, 7) {
                        threads[t].push(if g.rng.chance(2, 3) { Op::Stats } else { Op::Sync });
                        continue;
                    }
                    if !known.is_empty() && g.rng.chance(1, 6) {
                        let e = g.rng.pick(&known).clone();
                        threads[t].push(match (e.addr(), g.rng.below(4)) {
                            (Some(a), 0) => Op::AddrDeleted(a),
                            (Some(a), 1) => Op::Holder(a),
                            (_, 2) if g.model.offsets.values().any(|(id, _)| *id == e.id) => Op::GetOff(e.id),
                            _ => Op::IsDeleted(e.id),
                        });
                        continue;
                    }
                    let op = match g.rng.weighted(&[35, 15, 10, 10, 8, 8, 14]) {
                        0 => Op::Store(g.new_event()),
                        1 => Op::Store(g.new_version()),
                        2 => {
                            if let Some(e) = g.resubmit() {
                                Op::Store(e)
                            } else {
                                Op::Store(g.new_event())
                            }
                        }
                        3 => Op::Store(g.deletion()),
                        4 => {
                            if !known.is_empty() {
                                Op::Remove(g.rng.pick(&known).id)
                            } else {
                                Op::Store(g.new_event())
                            }
                        }
                        5 => {
                            if !known.is_empty() {
                                Op::Get(g.rng.pick(&known).id)
                            } else {
                                Op::Store(g.new_event())
                            }
                        }
                        _ => {
                            let mut q = g.query();
                            q.allow_scrape = true;
                            Op::Query(q)
                        }
                    };
                    threads[t].push(op);
                }
            }
        }
    }
    for t in threads.iter_mut() {
        if t.is_empty() {
            t.push(Op::Store(g.new_event()));
        }
    }
    // the schedule is generated while running (it depends on which threads are runnable);
    // the generator fixes the policy and its PRNG stream
    let sched_seed = g.rng.next();
    // (in a concurrent trace obs_level 1 means: the `y:` points are yield points too)
    let fine = park_hint || (sched_seed >> 17) % 2 == 0;
    Trace {
        cfg: Cfg { prop: "C14".into(), mode: Mode::Conc, seed: sched_seed, blocker: park_hint, extra_tables: 0, obs_level: fine as u8, drain: false },
        ops,
        threads,
        schedule: vec![],
        expect: None,
    }
}

fn g_apply(g: &mut Gen, e: &EvSpec) {
    g.model.note_event(e);
    let ex = g.model.store_expect(e);
    if !ex.must_fail() {
        let off = g.offset_counter;
        g.offset_counter += ((e.size() as u64) + 7) / 8 * 8;
        let _ = g.model.apply_store(e, off, e.size());
    }
}

// ------------------------------------------------------------------ execution

enum Policy {
    /// follow the recorded schedule; entries naming a non-runnable thread are skipped and
    /// when the schedule is exhausted the lowest-numbered runnable thread runs
    Replay(Vec<u8>, usize),
    Uniform(Rng),
    /// PCT-style: random priorities, lowered at d random steps
    Pct(Rng, Vec<u32>, Vec<u64>),
    /// one thread (the victim) runs up to its k-th yield point and is then left parked there
    /// until some other thread has completed a whole operation (or nobody else can run); random
    /// afterwards. (rng, victim, k, yields of the victim so far, phase, records when parked,
    /// count only the yields inside helpers - the `y:` points - towards k)
    ParkAcross(Rng, usize, u64, u64, u8, usize, bool),
}

pub struct ConcResult {
    pub result: RunResult,
    pub schedule: Vec<u8>,
    /// (thread, index) of the concurrent store calls that were refused
    pub refused: Vec<(usize, usize)>,
}

pub fn run_conc(trace: &Trace, scratch: PathBuf, known: &BTreeSet<String>, verbose: bool) -> RunResult {
    let mut full = run_conc_full(trace, scratch.clone(), verbose, known);
    // C12, differentially: when the run ended in a finding and some of the concurrent stores were
    // refused, the same run is repeated without them. A refused store changes nothing; if the
    // store is sound without the refused calls and unsound with them, they changed something.
    if let Some(f) = &mut full.result.finding {
        // (not when the stores and lookups are already explained and only a query answer is not:
        // that is not something a refused store did)
        if !f.props.is_empty() && !f.props.contains(&"C12") && !f.props.contains(&"C05") && !full.refused.is_empty() {
            let mut t2 = trace.clone();
            for (t, ops) in t2.threads.iter_mut().enumerate() {
                let mut idx = 0usize;
                ops.retain(|_| {
                    let keep = !full.refused.contains(&(t, idx));
                    idx += 1;
                    keep
                });
            }
            t2.schedule = vec![];
            let again = run_conc_full(&t2, scratch.join("without-refused"), false, known);
            if again.result.finding.is_none() {
                f.props.push("C12");
                f.detail.push_str("; C12: the same threads without the refused store calls leave a store that is explained in full - the refused calls changed something");
            }
        }
    }
    full.result
}

pub fn run_conc_full(trace: &Trace, scratch: PathBuf, verbose: bool, known_open: &BTreeSet<String>) -> ConcResult {
    let mut known_out: Vec<crate::exec::Known> = vec![];
    let mut stats = Stats::default();
    let mut log: Vec<String> = vec![];
    let _ = std::fs::create_dir_all(&scratch);
    let dir = scratch.join("d0");
    let finish = |finding: Option<Finding>, stats: Stats, log: Vec<String>, sig: u64, n: usize, schedule: Vec<u8>| ConcResult {
        result: RunResult { finding, known: vec![], stats, log, signature: sig, ops_executed: n },
        schedule,
        refused: vec![],
    };
    pocket_db::verif::install(None);
    pocket_types::verif_clock::set(Some(crate::gen::T0 + 100));
    let store = match real::catch(|| Store::new(&dir, vec![])) {
        Ok(Ok(s)) => s,
        _ => {
            let _ = std::fs::remove_dir_all(&scratch);
            return finish(
                Some(Finding { clause: "open-failed".into(), props: vec![], detail: "harness: Store::new failed".into(), op_index: 0 }),
                stats,
                log,
                0,
                0,
                vec![],
            );
        }
    };
    // ---- base history, sequentially, no oracle beyond "the model follows the outcomes"
    let mut model = Model::default();
    model.clock = Some(crate::gen::T0 + 100);
    let mut enc: BTreeMap<B32, OwnedEvent> = BTreeMap::new();
    for op in &trace.ops {
        if let Op::Store(e) = op {
            let ev = real::encode(e);
            let _ = enc.insert(e.id, ev.clone());
            model.note_event(e);
            if let StoreOutcome::Ok(off) = real::store_event(&store, &ev) {
                let _ = model.apply_store(e, off, ev.as_bytes().len());
            }
        } else if let Op::Remove(id) = op {
            let _ = store.remove_event(pocket_types::Id::from_bytes(*id));
            let _ = model.apply_remove(id);
        }
    }
    for th in &trace.threads {
        for op in th {
            if let Op::Store(e) = op {
                if !enc.contains_key(&e.id) {
                    let _ = enc.insert(e.id, real::encode(e));
                }
                model.note_event(e);
            }
        }
    }
    let opts = ObsOpts { battery: false, extra: false, offsets: false };
    {
        let f = |id: &B32| enc.get(id).map(|e| e.as_bytes().to_vec());
        let real_o = obs::observe_real(&store, &model, &opts, 0);
        let exp = obs::observe_model(&model, &f, &opts, 0);
        if let Some((k, w, g)) = obs::first_diff(&exp, &real_o) {
            // the sequential base history already disagrees with the model: whatever serial
            // order the threads take, the answers cannot be those of the model either
            stats.inc("conc/base_mismatch");
            let detail = format!("already the sequential base history of this schedule deviates: probe {} shows {} but the model requires {}", crate::exec::shorten_key(k), g, w);
            let kind = k.split('/').next().unwrap_or("");
            let mut props: Vec<&'static str> = vec!["C14"];
            match kind {
                "repl" | "prepl" => props.push("C09"),
                "delid" | "deladdr" => props.push("C11"),
                "count" => props.push("C17"),
                _ => {
                    props.push("C04");
                    props.push("C09");
                }
            }
            let _ = real::catch(|| store.verif_close());
            let _ = std::fs::remove_dir_all(&scratch);
            pocket_types::verif_clock::set(None);
            return finish(Some(Finding { clause: "base-history-differs".into(), props, detail, op_index: 0 }), stats, log, 1, trace.ops.len(), vec![]);
        }
    }

    // ---- the concurrent phase
    let n = trace.threads.len();
    let ctl = Arc::new(Ctl::new(n));
    let fine = trace.cfg.obs_level == 1;
    if fine {
        stats.inc("conc/fine_grained_yields");
    }
    const REF_HAZARD_SIG: &str = "reader-references-dangle-after-concurrent-remap";
    ctl.m.lock().unwrap().avoid_ref_hazard = known_open.contains(REF_HAZARD_SIG) && std::env::var("VERIF_ENTER_REF_HAZARD").is_err();
    pocket_db::verif::install(Some(Arc::new(ConcHooks { ctl: ctl.clone(), fine })));
    if !NO_MAPLOCK_MODEL.load(std::sync::atomic::Ordering::Relaxed) {
        *MAP_CTL.lock().unwrap() = Some(ctl.clone());
        mmap_append::verif_set_hook(Some(map_hook));
    }
    let mut policy = if !trace.schedule.is_empty() {
        Policy::Replay(trace.schedule.clone(), 0)
    } else {
        let mut r = Rng::new(trace.cfg.seed);
        let which = if trace.cfg.blocker { 3 } else { r.below(3) };
        if which == 3 {
            // the trace asks for it: thread 0 parked at one of its first points inside a helper
            // (two runs in three), or at one of its first yields
            let inside = trace.cfg.obs_level == 1 && r.chance(2, 3);
            let k = 1 + if inside { r.below(3) } else { r.below(8) };
            Policy::ParkAcross(r, 0, k, 0, 0, 0, inside)
        } else if which == 0 {
            Policy::Uniform(r)
        } else if which == 2 {
            // the victim: preferably a thread that starts with a reader operation
            let readers_first: Vec<usize> = (0..n).filter(|t| matches!(trace.threads[*t].first(), Some(Op::Query(_) | Op::Get(_) | Op::Has(_) | Op::Holder(_) | Op::AddrDeleted(_) | Op::IsDeleted(_) | Op::GetOff(_) | Op::Stats))).collect();
            let victim = if !readers_first.is_empty() && r.chance(2, 3) { *r.pick(&readers_first) } else { r.usize(n) };
            // (the first yield is `op_start`; in fine-grained runs the interesting points of a
            // reader lie within its first dozen yields, those of a writer within its first thirty)
            let fine_run = trace.cfg.obs_level == 1;
            let inside = fine_run && r.chance(1, 2);
            let k = 1 + if inside { r.below(6) } else if fine_run { r.below(24) } else { r.below(10) };
            Policy::ParkAcross(r, victim, k, 0, 0, 0, inside)
        } else {
            let mut prio: Vec<u32> = (0..n as u32).map(|i| 100 + i).collect();
            r.shuffle(&mut prio);
            let d = 1 + r.usize(3);
            let horizon = if trace.cfg.obs_level == 1 { 240 } else { 60 };
            let changes: Vec<u64> = (0..d).map(|_| r.range(1, horizon)).collect();
            Policy::Pct(r, prio, changes)
        }
    };
    let records: Arc<Mutex<Vec<OpRecord>>> = Arc::new(Mutex::new(vec![]));
    // C15: references taken by threads: (id, address, bytes value, event.map length when taken)
    let held: Arc<Mutex<Vec<(B32, u64, usize, String, u64)>>> = Arc::new(Mutex::new(vec![]));
    let base_offsets: BTreeMap<B32, u64> = model.offsets.iter().map(|(o, (id, _))| (*id, *o)).collect();
    let map_path = dir.join("event.map");
    let mut schedule: Vec<u8> = vec![];
    let mut hung = false;
    let mut deadlock = false;
    // C13: the process is killed while the threads are at work (all parked at their yield points:
    // the files are copied at a few instants fixed by the trace's seed) and once more when they
    // have finished; every copy must open to a store in which every completed call is reflected
    let kill_steps: Vec<u64> = if trace.cfg.prop == "C13" {
        let sd = trace.cfg.seed;
        vec![3 + sd % 17, 9 + (sd >> 8) % 41, 20 + (sd >> 16) % 83, 40 + (sd >> 24) % 131]
    } else {
        vec![]
    };
    let mut kill_snaps: Vec<(u64, PathBuf)> = vec![];
    std::thread::scope(|scope| {
        for t in 0..n {
            let ctl = ctl.clone();
            let store = &store;
            let ops = &trace.threads[t];
            let enc = &enc;
            let records = records.clone();
            let held = held.clone();
            let map_path = map_path.clone();
            let base_offsets = &base_offsets;
            let _ = scope.spawn(move || {
                TID.with(|c| c.set(Some(t)));
                let mut starve_next = false;
                for (i, op) in ops.iter().enumerate() {
                    if matches!(op, Op::Starve) {
                        starve_next = true;
                        continue;
                    }
                    {
                        let mut g = ctl.m.lock().unwrap();
                        g.cur_op[t] = i;
                        g.reader_op[t] = matches!(op, Op::Query(_) | Op::Get(_) | Op::Holder(_) | Op::GetOff(_) | Op::Vanish(_));
                        g.refs_in_flight[t] = 0;
                    }
                    ctl.yield_at(t, St::Parked("op_start"));
                    let invoke = ctl.step();
                    if let Op::TakeRef(id) = op {
                        // by offset (the id may legitimately move to a new offset if it is removed
                        // and stored again meanwhile)
                        if let Some(off) = base_offsets.get(id) {
                            if let Ok(e) = store.get_event_by_offset(*off) {
                                let _ = &map_path;
                                let flen = ctl.resizes.load(std::sync::atomic::Ordering::SeqCst);
                                held.lock().unwrap().push((*id, *off, e.as_bytes().as_ptr() as usize, bytes_val(e.as_bytes()), flen));
                            }
                        }
                        continue;
                    }
                    let starved = std::mem::take(&mut starve_next);
                    let readers = if starved {
                        // take every reader slot (outside the schedule: these are not steps of the
                        // operation under test)
                        TID.with(|c| c.set(None));
                        let mut held = vec![];
                        while held.len() < 4096 {
                            match store.read_txn() {
                                Ok(x) => held.push(x),
                                Err(_) => break,
                            }
                        }
                        TID.with(|c| c.set(Some(t)));
                        held
                    } else {
                        vec![]
                    };
                    let out = exec_op(store, op, enc, base_offsets);
                    ctl.m.lock().unwrap().refs_in_flight[t] = 0;
                    drop(readers);
                    ctl.release_writer_if_held(t);
                    if let (Op::Store(e), Outcome::Store(StoreOutcome::Ok(off))) = (op, &out) {
                        // hold a reference to what was just stored (C15)
                        if let Ok(ev) = store.get_event_by_offset(*off) {
                            let rz = ctl.resizes.load(std::sync::atomic::Ordering::SeqCst);
                            held.lock().unwrap().push((e.id, *off, ev.as_bytes().as_ptr() as usize, bytes_val(ev.as_bytes()), rz));
                        }
                    }
                    let ret = ctl.step();
                    records.lock().unwrap().push(OpRecord { thread: t, idx: i, op: op.clone(), invoke, ret, out, starved });
                }
                TID.with(|c| c.set(None));
                ctl.done(t);
            });
        }
        // the controller
        let mut last: Option<usize> = None;
        loop {
            let mut g = ctl.m.lock().unwrap();
            // wait until nobody is running
            let mut waited = 0;
            while g.status.iter().any(|s| matches!(s, St::Running | St::NotStarted)) || g.current.is_some() {
                let (g2, to) = ctl.cv.wait_timeout(g, Duration::from_secs(5)).unwrap();
                g = g2;
                if to.timed_out() {
                    waited += 1;
                    if waited >= 6 {
                        g.hung = true;
                        break;
                    }
                }
            }
            if g.hung {
                hung = true;
                break;
            }
            if g.status.iter().all(|s| *s == St::Done) {
                break;
            }
            if kill_steps.contains(&g.step) && !kill_snaps.iter().any(|(s, _)| *s == g.step) {
                let dst = scratch.join(format!("kill{}", g.step));
                if crate::hooks::copy_store_files(&dir, &dst).is_ok() {
                    kill_snaps.push((g.step, dst));
                }
            }
            let compute = |g: &CtlState| -> Vec<usize> {
                (0..n)
                    .filter(|t| match g.status[*t] {
                        St::Parked(_) => !g.draining || !g.map_readers.iter().any(|r| *r) || g.map_readers[*t],
                        St::WaitWriter => g.writer.is_none() && (!g.draining || !g.map_readers.iter().any(|r| *r)),
                        St::WaitMapRead => g.draining || g.map_write_waiting.is_none(),
                        St::WaitMapWrite => (0..n).all(|u| u == *t || !g.map_readers[u]) && (!g.avoid_ref_hazard || (0..n).all(|u| u == *t || !(g.reader_op[u] && g.refs_in_flight[u] > 0 && g.status[u] != St::Done))),
                        St::WaitRefHazard => (0..n).all(|u| u == *t || !(g.reader_op[u] && g.refs_in_flight[u] > 0 && g.status[u] != St::Done)),
                        _ => false,
                    })
                    .collect()
            };
            // a store queued for the map's write lock while a reader that is not inside Deref has
            // come to hold references meanwhile: the same hazard as at the moment of queueing
            if g.ref_hazard.is_none() && !g.draining {
                for t in 0..n {
                    if g.status[t] == St::WaitMapWrite && (0..n).all(|u| u == t || !g.map_readers[u]) {
                        let holders: Vec<usize> = (0..n).filter(|u| *u != t && g.reader_op[*u] && g.refs_in_flight[*u] > 0 && g.status[*u] != St::Done).collect();
                        if !holders.is_empty() {
                            g.ref_hazard = Some(format!(
                                "thread {t} (store_event growing event.map) is about to remap while thread(s) {:?} are inside a query or lookup holding references to events they have already read from the map: the remap may move the mapping, after which those references (and the answer built from them) point into unmapped memory",
                                holders
                            ));
                        }
                    }
                }
            }
            let mut runnable = compute(&g);
            if runnable.is_empty() && g.status.iter().any(|s| matches!(s, St::WaitMapRead | St::WaitMapWrite)) && !g.draining {
                // modelled dead-lock: a reader inside Deref holds the read lock and wants it again
                // while a growing writer is queued for the write lock
                let readers: Vec<usize> = (0..n).filter(|t| g.status[*t] == St::WaitMapRead).collect();
                let writer = g.map_write_waiting;
                g.map_deadlock = Some(format!(
                    "thread(s) {:?} hold the event map's read lock inside Deref and request it again while thread {:?} (growing the map in store_event) waits for the write lock: with std's writer-preferring RwLock neither can proceed",
                    readers, writer
                ));
                g.draining = true;
                runnable = compute(&g);
            }
            if runnable.is_empty() {
                deadlock = true;
                break;
            }
            let pick = match &mut policy {
                Policy::Replay(s, pos) => {
                    let mut chosen = None;
                    while *pos < s.len() {
                        let c = s[*pos] as usize;
                        *pos += 1;
                        if runnable.contains(&c) {
                            chosen = Some(c);
                            break;
                        }
                    }
                    chosen.unwrap_or(runnable[0])
                }
                Policy::Uniform(r) => *r.pick(&runnable),
                Policy::Pct(r, prio, changes) => {
                    let step = g.step;
                    let best = *runnable.iter().max_by_key(|t| prio[**t]).unwrap();
                    if changes.contains(&step) {
                        // lower the priority of the thread that would run
                        prio[best] = r.below(50) as u32;
                    }
                    *runnable.iter().max_by_key(|t| prio[**t]).unwrap()
                }
                Policy::ParkAcross(r, victim, k, yields, phase, recs_at_park, inside) => {
                    let done_now = records.lock().unwrap().iter().filter(|x| x.thread != *victim).count();
                    if *phase == 0 {
                        // (with `inside`, the victim is parked at its k-th point inside a helper)
                        if *inside && *yields < *k && matches!(g.status[*victim], St::Parked(p) if p.starts_with("y:")) {
                            *yields += 1;
                        }
                        if runnable.contains(victim) && *yields < *k {
                            if !*inside {
                                *yields += 1;
                            }
                            *victim
                        } else if *yields >= *k {
                            *phase = 1;
                            *recs_at_park = done_now;
                            let others: Vec<usize> = runnable.iter().copied().filter(|t| t != victim).collect();
                            if others.is_empty() { *phase = 2; *r.pick(&runnable) } else { *r.pick(&others) }
                        } else {
                            // the victim cannot run yet (it waits for a lock): somebody else
                            *r.pick(&runnable)
                        }
                    } else if *phase == 1 {
                        let others: Vec<usize> = runnable.iter().copied().filter(|t| t != victim).collect();
                        if done_now > *recs_at_park || others.is_empty() {
                            *phase = 2;
                            if runnable.contains(victim) { *victim } else { *r.pick(&runnable) }
                        } else {
                            // stay with one of the others until it has finished its operation
                            others[0]
                        }
                    } else {
                        *r.pick(&runnable)
                    }
                }
            };
            g.step += 1;
            let from = match g.status[pick] {
                St::Parked(p) => p.to_string(),
                St::WaitWriter => "write_txn".to_string(),
                St::WaitMapRead => "mmap:deref_second_read".to_string(),
                St::WaitMapWrite => "mmap:resize_write_lock".to_string(),
                St::WaitRefHazard => "mmap:resize_after_readers_let_go".to_string(),
                _ => "?".to_string(),
            };
            if g.status[pick] == St::WaitWriter {
                g.writer = Some(pick);
                g.grants.push(pick);
                let o = g.cur_op[pick];
                g.grant_ops.push((pick, o));
            }
            if let Some(l) = last {
                if l != pick && !matches!(g.status[l], St::Done | St::Parked("op_start")) {
                    stats.inc("conc/switch_in_flight");
                }
            }
            last = Some(pick);
            let step = g.step;
            if std::env::var("VERIF_TRACE_STEPS").is_ok() {
                eprintln!("step {step}: thread {pick} released from {from} (refs in flight {:?}, statuses {:?})", g.refs_in_flight, g.status);
            }
            g.events.push((step, pick, from));
            schedule.push(pick as u8);
            g.current = Some(pick);
            g.status[pick] = St::Running;
            ctl.cv.notify_all();
        }
        if hung || deadlock {
            // threads may be stuck for good: the process cannot continue
            let what = if hung { "a thread did not reach its next yield point within 30 s (blocked or spinning in the real code)" } else { "no thread is runnable (all wait for the writer lock)" };
            println!("X conc run stuck: {what}");
            let txt = {
                let mut t = trace.clone();
                t.schedule = schedule.clone();
                t.to_text()
            };
            let p = format!("{}/replays/C14-{}-stuck.trace", crate::verif_root(), trace.cfg.seed);
            let _ = std::fs::create_dir_all(format!("{}/replays", crate::verif_root()));
            let _ = std::fs::write(&p, txt);
            // (the parent sees this worker die inside the run and reports it with a replay)
            use std::io::Write;
            let _ = std::io::stdout().flush();
            std::process::exit(3);
        }
    });
    pocket_db::verif::install(None);
    mmap_append::verif_set_hook(None);
    *MAP_CTL.lock().unwrap() = None;
    // C15: every reference a thread took still denotes the same bytes at the same address
    let mut ref_finding: Option<Finding> = None;
    {
        let flen_now = ctl.resizes.load(std::sync::atomic::Ordering::SeqCst);
        for (id, off, addr, val, flen) in held.lock().unwrap().iter() {
            stats.inc("ref_checks");
            let fresh = store.get_event_by_offset(*off);
            if fresh.is_err() && ref_finding.is_none() {
                ref_finding = Some(Finding { clause: "ref-unreadable".into(), props: vec!["C15", "C04"], detail: format!("offset {off} of the reference held to {} is no longer readable", short(id)), op_index: 0 });
            }
            if let Ok(e) = fresh {
                let addr_now = e.as_bytes().as_ptr() as usize;
                if addr_now != *addr {
                    if flen_now != *flen {
                        stats.inc("fault/mapping_moved_on_growth");
                        stats.inc("fault/growth");
                        let sig = "growth-moved-mapping";
                        if known_open.contains(sig) {
                            if known_out.is_empty() {
                                known_out.push(crate::exec::Known {
                                    props: &["C15"],
                                    sig,
                                    detail: format!("a store by another thread enlarged event.map and moved the mapping: the reference a thread held to {} dangles", short(id)),
                                });
                            }
                        } else if ref_finding.is_none() {
                            ref_finding = Some(Finding { clause: "ref-moved-on-growth".into(), props: vec!["C15"], detail: format!("a store by another thread enlarged event.map and moved the mapping: the reference held to {} dangles", short(id)), op_index: 0 });
                        }
                    } else if ref_finding.is_none() {
                        ref_finding = Some(Finding { clause: "ref-moved-without-growth".into(), props: vec!["C15"], detail: format!("address of the reference held to {} changed although the event map was not remapped", short(id)), op_index: 0 });
                    }
                } else {
                    let now = bytes_val(e.as_bytes());
                    if now != *val && ref_finding.is_none() {
                        ref_finding = Some(Finding { clause: "ref-bytes-changed".into(), props: vec!["C15", "C04"], detail: format!("bytes under the reference held to {} changed: {} -> {}", short(id), val, now), op_index: 0 });
                    }
                }
            }
        }
    }
    let recs: Vec<OpRecord> = records.lock().unwrap().clone();
    let g = ctl.m.lock().unwrap();
    let map_deadlock = g.map_deadlock.clone();
    if let Some(what) = g.ref_hazard.clone() {
        stats.inc("fault/remap_reached_while_a_reader_holds_references");
        if g.avoid_ref_hazard {
            // the writer was kept back until the readers had finished: the run goes on and is
            // judged as usual; the open finding is reported
            known_out.push(crate::exec::Known { props: &["C14"], sig: REF_HAZARD_SIG, detail: what });
        }
    }
    stats.add("conc/steps", g.step);
    stats.add("conc/writer_grants", g.grants.len() as u64);
    for (_, _, from) in &g.events {
        stats.inc(&format!("conc/released_from/{from}"));
    }
    // signature: the (thread, point) schedule
    let mut sig: u64 = 0xcbf2_9ce4_8422_2325;
    for (_, t, from) in &g.events {
        sig = (sig ^ fnv1a(format!("{t}:{from}").as_bytes())).wrapping_mul(0x0000_0100_0000_01B3);
    }
    for (s, t, from) in &g.events {
        log.push(format!("step {s}: thread {t} released from {from}"));
    }
    let grant_ops = g.grant_ops.clone();
    drop(g);
    let mut sorted = recs.clone();
    sorted.sort_by_key(|r| (r.thread, r.idx));
    for r in &sorted {
        log.push(format!("thread {} op {} [{}..{}] {} -> {}", r.thread, r.idx, r.invoke, r.ret, r.op.kind_name(), outcome_label(&r.out)));
        stats.inc(&format!("op/{}", r.op.kind_name()));
        if let Outcome::Store(s) = &r.out {
            stats.inc(&format!("store/{}", s.class()));
        }
    }
    if verbose {
        for l in &log {
            eprintln!("{l}");
        }
    }

    // ---- a modelled reader/writer dead-lock ends the run: what followed was only the drain
    if let Some(what) = map_deadlock {
        stats.inc("fault/map_rwlock_deadlock");
        let sig = "map-read-lock-reentered-while-growth-waits";
        let mut finding = None;
        if known_open.contains(sig) {
            known_out.push(crate::exec::Known { props: &["C14"], sig, detail: what });
        } else {
            finding = Some(Finding { clause: "reader-writer-deadlock".into(), props: vec!["C14"], detail: what, op_index: 0 });
        }
        let _ = real::catch(|| store.verif_close());
        let _ = std::fs::remove_dir_all(&scratch);
        pocket_types::verif_clock::set(None);
        if let Some(f) = &finding {
            log.push(format!("FINDING {} {}", f.clause, f.detail));
        }
        let nops = trace.ops.len() + recs.len();
        let mut r = finish(finding, stats, log, sig_of_events(&ctl), nops, schedule);
        r.result.known = known_out;
        return r;
    }

    // ---- C13: the kill instants of the concurrent phase, and one after it
    let mut kill_finding: Option<Finding> = None;
    if trace.cfg.prop == "C13" {
        let end_step = ctl.step() + 1;
        let dst = scratch.join("kill_end");
        if crate::hooks::copy_store_files(&dir, &dst).is_ok() {
            kill_snaps.push((end_step, dst));
        }
        // what nobody else in the run touches: plain stores whose event is named by no removal,
        // vanish or request and shares no address with another event of the run
        let mut touched: BTreeSet<B32> = BTreeSet::new();
        let mut vanished_keys: BTreeSet<B32> = BTreeSet::new();
        let mut addrs: BTreeMap<AddrKey, u32> = BTreeMap::new();
        for r in &recs {
            match &r.op {
                Op::Remove(id) => {
                    let _ = touched.insert(*id);
                }
                Op::Vanish(pk) => {
                    let _ = vanished_keys.insert(*pk);
                }
                Op::Store(e) => {
                    if let Some(a) = e.addr() {
                        *addrs.entry(a).or_insert(0) += 1;
                    }
                    if e.kind == 5 {
                        for t in &e.tags {
                            if t.len() >= 2 && t[0] == "e" {
                                if let Some(id) = parse_e_target(&t[1]) {
                                    let _ = touched.insert(id);
                                }
                            }
                        }
                    }
                }
                _ => {}
            }
        }
        for (step, snap) in &kill_snaps {
            stats.inc("crash/kill_instants_in_concurrent_runs");
            let opened = real::catch(|| Store::new(snap, vec![]));
            let s2 = match opened {
                Ok(Ok(s)) => s,
                Ok(Err(e)) => {
                    kill_finding = Some(Finding { clause: "crash-reopen-failed".into(), props: vec!["C13"], detail: format!("killed at step {step} of the concurrent phase: reopening the directory failed: {}", real::err_name(&e.inner)), op_index: 0 });
                    break;
                }
                Err(p) => {
                    kill_finding = Some(Finding { clause: "crash-reopen-panicked".into(), props: vec!["C13"], detail: format!("killed at step {step} of the concurrent phase: reopening the directory panicked: {p}"), op_index: 0 });
                    break;
                }
            };
            // every call completed before the kill is reflected: base events nobody touches, and
            // plain stores that had returned
            let mut must: Vec<(B32, Option<u64>)> = vec![];
            for id in &model.retrievable {
                let e = &model.events[id];
                if !touched.contains(id) && !vanished_keys.contains(&e.pk) && e.addr().is_none() && (e.kind != 1059 || vanished_keys.is_empty()) && !recs.iter().any(|r| matches!(&r.op, Op::Store(x) if x.id == *id)) {
                    must.push((*id, base_offsets.get(id).copied()));
                }
            }
            for r in &recs {
                if let (Op::Store(e), Outcome::Store(StoreOutcome::Ok(off))) = (&r.op, &r.out) {
                    let alone = recs.iter().filter(|x| matches!(&x.op, Op::Store(y) if y.id == e.id)).count() == 1;
                    if r.ret < *step && alone && e.kind != 5 && !is_ephemeral(e.kind) && !touched.contains(&e.id) && !vanished_keys.contains(&e.pk) && e.addr().is_none() && (e.kind != 1059 || vanished_keys.is_empty()) {
                        must.push((e.id, Some(*off)));
                    }
                }
            }
            for (id, off) in must {
                let want = enc.get(&id).map(|e| bytes_val(e.as_bytes()));
                let got = real::catch(|| s2.get_event_by_id(pocket_types::Id::from_bytes(id)).map(|o| o.map(|e| bytes_val(e.as_bytes()))));
                let ok = matches!(&got, Ok(Ok(Some(v))) if Some(v) == want.as_ref());
                if !ok && kill_finding.is_none() {
                    kill_finding = Some(Finding { clause: "crash-completed-call-not-reflected".into(), props: vec!["C13"], detail: format!("killed at step {step} of the concurrent phase: the store of {} had completed and nobody removed it, yet after reopening the lookup by id gives {:?}", short(&id), got.map(|r| r.map_err(|e| real::err_name(&e.inner)))), op_index: 0 });
                }
                if let Some(off) = off {
                    let got = real::catch(|| s2.get_event_by_offset(off).map(|e| bytes_val(e.as_bytes())));
                    let ok = matches!(&got, Ok(Ok(v)) if Some(v) == want.as_ref());
                    if !ok && kill_finding.is_none() {
                        kill_finding = Some(Finding { clause: "crash-completed-call-not-reflected".into(), props: vec!["C13", "C04"], detail: format!("killed at step {step} of the concurrent phase: offset {off} of the completed store of {} reads {:?} after reopening", short(&id), got.map(|r| r.map_err(|e| real::err_name(&e.inner)))), op_index: 0 });
                    }
                }
            }
            // and the recovered store works: a fresh event goes in and comes back
            if kill_finding.is_none() {
                let fresh = EvSpec { id: [0x5a; 32], pk: [0x5b; 32], kind: 1, at: crate::gen::T0, tags: vec![], content: vec![7; 40] };
                let fe = real::encode(&fresh);
                match real::store_event(&s2, &fe) {
                    StoreOutcome::Ok(off) => {
                        let back = real::catch(|| s2.get_event_by_offset(off).map(|e| e.as_bytes() == fe.as_bytes()));
                        if !matches!(back, Ok(Ok(true))) {
                            kill_finding = Some(Finding { clause: "crash-continuation-diverges".into(), props: vec!["C13"], detail: format!("killed at step {step} of the concurrent phase: an event stored after reopening does not read back"), op_index: 0 });
                        }
                    }
                    other => {
                        kill_finding = Some(Finding { clause: "crash-continuation-diverges".into(), props: vec!["C13"], detail: format!("killed at step {step} of the concurrent phase: a fresh event is refused after reopening: {}", other.label()), op_index: 0 });
                    }
                }
            }
            let _ = real::catch(|| s2.verif_close());
            let _ = std::fs::remove_dir_all(snap);
            if kill_finding.is_some() {
                break;
            }
        }
    }

    // ---- oracle
    let final_obs = obs::observe_real(&store, &model_universe(&model, &recs), &ObsOpts { battery: false, extra: false, offsets: true }, 0);
    let per_thread: Vec<Vec<usize>> = (0..n).map(|t| {
        let mut v: Vec<usize> = (0..sorted.len()).filter(|i| sorted[*i].thread == t).collect();
        v.sort_by_key(|i| sorted[*i].idx);
        v
    }).collect();
    // hint: writers in grant order, readers by return step
    let mut hint: Vec<usize> = vec![];
    {
        let mut keyed: Vec<(u64, usize)> = vec![];
        for (i, r) in sorted.iter().enumerate() {
            let gpos = grant_ops.iter().position(|(t, o)| *t == r.thread && *o == r.idx);
            let key = match gpos {
                Some(p) => {
                    // place the writer at the step of its grant
                    let mut k = r.invoke;
                    // grants happen in step order; find the step of this grant
                    let mut seen = 0;
                    let g = ctl.m.lock().unwrap();
                    for (s, t, from) in &g.events {
                        if from == "write_txn" {
                            if seen == p {
                                k = *s;
                                let _ = t;
                                break;
                            }
                            seen += 1;
                        }
                    }
                    k
                }
                None => r.ret,
            };
            keyed.push((key, i));
        }
        keyed.sort();
        hint = keyed.into_iter().map(|(_, i)| i).collect();
    }
    let mut search = Search { recs: &sorted, per_thread, enc: &enc, final_obs: &final_obs, opts: ObsOpts { battery: false, extra: false, offsets: true }, budget: 200_000, leaf_mismatch: None, leaf_keys: BTreeSet::new() };
    let mut next = vec![0usize; n];
    let verdict = search.dfs(&mut next, &model, &hint, 0);
    let mut finding = None;
    match verdict {
        Some(true) => stats.inc("conc/linearizable"),
        None => stats.inc("conc/search_budget_exhausted"),
        Some(false) => {
            let mut detail = String::from("no order of the operations consistent with real time explains the results: ");
            for r in &sorted {
                detail.push_str(&format!("[t{} {} {}..{} -> {}] ", r.thread, r.op.brief().chars().take(60).collect::<String>(), r.invoke, r.ret, outcome_label(&r.out).chars().take(70).collect::<String>()));
            }
            if let Some(l) = &search.leaf_mismatch {
                detail.push_str(&format!("; with the results explained, the final state differs: {l}"));
            }
            // which other statements does the final state contradict (true under ANY order)?
            let mut props: Vec<&'static str> = vec!["C14"];
            // are the queries the culprit? (everything else explained, some answer the exact
            // answer of no state between its start and its end)
            if sorted.iter().any(|r| matches!(r.op, Op::Query(_))) {
                let noq: Vec<OpRecord> = sorted.iter().filter(|r| !matches!(r.op, Op::Query(_))).cloned().collect();
                let mut per2: Vec<Vec<usize>> = vec![vec![]; n];
                for (i, r) in noq.iter().enumerate() {
                    per2[r.thread].push(i);
                }
                let mut s2 = Search { recs: &noq, per_thread: per2, enc: &enc, final_obs: &final_obs, opts: ObsOpts { battery: false, extra: false, offsets: true }, budget: 200_000, leaf_mismatch: None, leaf_keys: BTreeSet::new() };
                let mut next2 = vec![0usize; n];
                if s2.dfs(&mut next2, &model, &[], 0) == Some(true) {
                    props.push("C05");
                    detail.push_str("; C05: stores, removals and lookups are explained by an order, the query answers are not: an answer is not the exact answer for any state the store was in");
                }
            }
            // the same question for the other kinds of answers: leave one kind out; if the rest is
            // explained, answers of that kind are the exact answer of no state
            let classes: [(&str, &'static str, fn(&Op) -> bool); 4] = [
                ("holder lookups", "C09", |o| matches!(o, Op::Holder(_))),
                ("marker lookups", "C11", |o| matches!(o, Op::AddrDeleted(_) | Op::IsDeleted(_))),
                ("statistics reports", "C17", |o| matches!(o, Op::Stats)),
                ("lookups by id and by offset", "C04", |o| matches!(o, Op::Get(_) | Op::GetOff(_) | Op::Has(_))),
            ];
            for (what, prop, is_class) in classes {
                if props.contains(&prop) || !sorted.iter().any(|r| is_class(&r.op)) {
                    continue;
                }
                let rest: Vec<OpRecord> = sorted.iter().filter(|r| !is_class(&r.op)).cloned().collect();
                let mut per2: Vec<Vec<usize>> = vec![vec![]; n];
                for (i, r) in rest.iter().enumerate() {
                    per2[r.thread].push(i);
                }
                let mut s2 = Search { recs: &rest, per_thread: per2, enc: &enc, final_obs: &final_obs, opts: ObsOpts { battery: false, extra: false, offsets: true }, budget: 100_000, leaf_mismatch: None, leaf_keys: BTreeSet::new() };
                let mut next2 = vec![0usize; n];
                if s2.dfs(&mut next2, &model, &[], 0) == Some(true) {
                    props.push(prop);
                    detail.push_str(&format!("; {prop}: everything but the {what} is explained by an order: one of them is the exact answer of no state the store was in"));
                }
            }
            // the results are explained by some orders, but in every one of them the final state
            // differs on the same kind of probe: what that probe shows is wrong whatever happened
            if search.leaf_keys.len() == 1 {
                let kind = search.leaf_keys.iter().next().cloned().unwrap_or_default();
                let ps: &[&'static str] = match kind.as_str() {
                    "repl" | "prepl" => &["C09"],
                    "delid" | "deladdr" => &["C11"],
                    "count" => &["C17"],
                    "off" => &["C04", "C15"],
                    _ => &[],
                };
                for p in ps {
                    if !props.contains(p) {
                        props.push(p);
                        detail.push_str(&format!("; {p}: in every order that explains the results the final state differs on a {kind}/ probe"));
                    }
                }
            }
            let mut inv = state_invariants(&store, &model, &sorted, &enc);
            inv.extend(answer_invariants(&model, &sorted));
            inv.extend(path_agreement(&store, &model, &sorted));
            for (p, why) in inv {
                if !props.contains(&p) {
                    props.push(p);
                    detail.push_str(&format!("; {p}: {why}"));
                }
            }
            finding = Some(Finding { clause: "not-linearizable".into(), props, detail, op_index: 0 });
        }
    }
    // the results may be explained and the lookups by id agree, yet at the end (nothing runs any
    // more) an event is reachable through one index and not through another
    if finding.is_none() {
        let pa = path_agreement(&store, &model, &sorted);
        if !pa.is_empty() {
            let mut props: Vec<&'static str> = vec!["C14"];
            let mut detail = String::from("after the concurrent phase the access paths disagree");
            for (p, why) in pa {
                if !props.contains(&p) {
                    props.push(p);
                }
                detail.push_str(&format!("; {p}: {why}"));
            }
            finding = Some(Finding { clause: "access-paths-disagree".into(), props, detail, op_index: 0 });
        }
    }
    // every reader error is a violation by itself (an index entry whose bytes are unreadable, a panic)
    if finding.is_none() {
        for r in &sorted {
            let bad = match &r.out {
                Outcome::Has(Err(e)) | Outcome::Get(Err(e)) | Outcome::Removed(Err(e)) | Outcome::Vanished(Err(e)) | Outcome::Stats(Err(e)) | Outcome::Synced(Err(e)) | Outcome::IsDeleted(Err(e)) | Outcome::AddrDeleted(Err(e)) | Outcome::Holder(Err(e)) | Outcome::GetOff(Err(e)) => Some(e.clone()),
                Outcome::Query(QueryOutcomeC::OtherErr(e)) | Outcome::Query(QueryOutcomeC::Panic(e)) => Some(e.clone()),
                Outcome::Store(StoreOutcome::Other(_)) if matches!(&r.op, Op::Store(e) if model.store_expect(e).engine_refusal) => None,
                Outcome::Store(StoreOutcome::Other(_)) if r.starved => None,
                Outcome::Store(StoreOutcome::Panic(p)) | Outcome::Store(StoreOutcome::Other(p)) => Some(p.clone()),
                _ => None,
            };
            if let Some(e) = bad {
                finding = Some(Finding { clause: "concurrent-op-failed".into(), props: vec!["C14"], detail: format!("thread {} {} failed: {e}", r.thread, r.op.brief()), op_index: 0 });
                break;
            }
        }
    }
    let _ = real::catch(|| store.verif_close());
    let _ = std::fs::remove_dir_all(&scratch);
    pocket_types::verif_clock::set(None);
    if let Some(f) = &finding {
        log.push(format!("FINDING {} {}", f.clause, f.detail));
    }
    let nops = trace.ops.len() + sorted.len();
    match (&mut finding, kill_finding) {
        (None, kf) => finding = kf,
        (Some(f), Some(kf)) => {
            for p in kf.props {
                if !f.props.contains(&p) {
                    f.props.push(p);
                }
            }
            f.detail.push_str(&format!("; {}: {}", kf.clause, kf.detail));
        }
        _ => {}
    }
    match (&mut finding, ref_finding) {
        (None, rf) => finding = rf,
        (Some(f), Some(rf)) => {
            for p in rf.props {
                if !f.props.contains(&p) {
                    f.props.push(p);
                }
            }
            f.detail.push_str(&format!("; {}: {}", rf.clause, rf.detail));
        }
        _ => {}
    }
    let mut r = finish(finding, stats, log, sig, nops, schedule);
    r.result.known = known_out;
    r.refused = sorted
        .iter()
        .filter(|x| matches!(&x.out, Outcome::Store(so) if !matches!(so, StoreOutcome::Ok(_) | StoreOutcome::Panic(_))))
        .map(|x| (x.thread, x.idx))
        .collect();
    r
}

/// Statements about the final state that hold under every serial order of the recorded
/// operations; used to say which other properties a non-linearizable history contradicts.
fn state_invariants(store: &Store, base: &Model, recs: &[OpRecord], enc: &BTreeMap<B32, OwnedEvent>) -> Vec<(&'static str, String)> {
    let mut out: Vec<(&'static str, String)> = vec![];
    let has = |id: &B32| store.has_event(pocket_types::Id::from_bytes(*id)).unwrap_or(false);
    // events known to have been accepted: base retrievable + stores that returned Ok
    let mut accepted: BTreeMap<B32, EvSpec> = BTreeMap::new();
    for id in &base.retrievable {
        let _ = accepted.insert(*id, base.events[id].clone());
    }
    let mut ok_offsets: Vec<(u64, B32)> = vec![];
    for r in recs {
        if let (Op::Store(e), Outcome::Store(StoreOutcome::Ok(off))) = (&r.op, &r.out) {
            let _ = accepted.insert(e.id, e.clone());
            ok_offsets.push((*off, e.id));
        }
    }
    let removed_explicitly: BTreeSet<B32> = recs.iter().filter_map(|r| if let Op::Remove(id) = &r.op { Some(*id) } else { None }).collect();
    // C04: every offset returned by a successful store still reads the stored bytes
    for (off, id) in &ok_offsets {
        let want = enc.get(id).map(|e| bytes_val(e.as_bytes()));
        let got = match real::catch(|| store.get_event_by_offset(*off).map(|e| bytes_val(e.as_bytes()))) {
            Ok(Ok(v)) => Some(v),
            _ => None,
        };
        if want.is_some() && got != want {
            out.push(("C04", format!("offset {off} returned for {} reads {:?}, stored {:?}", short(id), got, want)));
            break;
        }
    }
    // C09: two retrievable events at one replaceable address
    let mut by_addr: BTreeMap<AddrKey, Vec<B32>> = BTreeMap::new();
    for (id, e) in &accepted {
        if let Some(a) = e.addr() {
            if has(id) {
                by_addr.entry(a).or_default().push(*id);
            }
        }
    }
    for (a, ids) in &by_addr {
        if ids.len() > 1 {
            out.push(("C09", format!("address {} holds {} retrievable events", a.label(), ids.len())));
            break;
        }
    }
    // C18: an explicitly removed event that is not retrievable must be accepted again: the last
    // submission of it (begun after every removal of it had returned) was refused as duplicate
    for x in &removed_explicitly {
        if has(x) {
            continue;
        }
        let last_remove_ret = recs.iter().filter(|r| matches!(&r.op, Op::Remove(id) if id == x)).map(|r| r.ret).max().unwrap_or(0);
        let last_store = recs.iter().filter(|r| matches!(&r.op, Op::Store(e) if e.id == *x)).max_by_key(|r| r.invoke);
        if let Some(ls) = last_store {
            let after_everything = recs.iter().filter(|r| match &r.op {
                Op::Store(e) => e.id == *x && (r.thread, r.idx) != (ls.thread, ls.idx),
                Op::Remove(id) => id == x,
                _ => false,
            }).all(|r| r.ret < ls.invoke);
            if after_everything && last_remove_ret < ls.invoke && matches!(ls.out, Outcome::Store(StoreOutcome::Duplicate)) {
                out.push(("C18", format!("{} was removed, is not retrievable, and its resubmission was refused as duplicate", short(x))));
            }
        }
    }
    // accepted deletion requests
    let dels: Vec<&EvSpec> = accepted.values().filter(|e| e.kind == 5).collect();
    for d in &dels {
        for t in &d.tags {
            if t.len() < 2 {
                continue;
            }
            if t[0] == "e" {
                if let Some(x) = parse_e_target(&t[1]) {
                    if let Some(v) = accepted.get(&x) {
                        if v.pk != d.pk {
                            // C10: the accepted, once-retrievable event of another author is gone and
                            // nothing but this foreign request can have removed it; or it carries a
                            // marker that only a foreign request can have put there
                            let superseded = v.addr().map(|a| accepted.values().any(|o| o.id != v.id && o.addr().as_ref() == Some(&a) && o.at >= v.at)).unwrap_or(false);
                            let own_request = dels.iter().any(|o| o.pk == v.pk && o.tags.iter().any(|t| t.len() >= 2 && t[0] == "e" && parse_e_target(&t[1]) == Some(x)));
                            let own_addr_request = dels.iter().any(|o| o.pk == v.pk && o.tags.iter().any(|t| t.len() >= 2 && t[0] == "a"));
                            let innocent = is_ephemeral(v.kind) || removed_explicitly.contains(&x) || superseded || own_request || own_addr_request;
                            let marked = store.event_is_deleted(pocket_types::Id::from_bytes(x)).unwrap_or(false);
                            if !innocent && !has(&x) {
                                out.push(("C10", format!("{} (author {}) was accepted and is gone; the only thing naming it is the request {} of {}", short(&x), short(&v.pk), short(&d.id), short(&d.pk))));
                            } else if !innocent && marked {
                                out.push(("C10", format!("{} (author {}) is retrievable but marked deleted; only the foreign request {} names it", short(&x), short(&v.pk), short(&d.id))));
                            }
                        } else if has(&x) && x != d.id {
                            // C11: covered by an accepted own deletion, yet retrievable
                            out.push(("C11", format!("{} is named by the accepted deletion request {} of its author, yet retrievable", short(&x), short(&d.id))));
                        }
                    }
                }
            } else if t[0] == "a" {
                if let Some(a) = parse_a_target(&t[1]) {
                    if a.pk == d.pk {
                        for (id, e) in &accepted {
                            if e.addr().as_ref() == Some(&a) && e.at <= d.at && has(id) && *id != d.id {
                                out.push(("C11", format!("{} at {} is covered by the accepted address deletion {} yet retrievable", short(id), a.label(), short(&d.id))));
                            }
                        }
                    } else if accepted.values().any(|e| e.addr().as_ref() == Some(&a)) {
                        out.push(("C10", format!("request {} names the address {} of another author and was accepted", short(&d.id), a.label())));
                    }
                }
            }
        }
    }
    // a deletion marker on an address that no request of the address's author names at all: whoever
    // put it there was not entitled to
    let mut addrs: BTreeSet<AddrKey> = base.addr_universe.clone();
    let mut requests: Vec<EvSpec> = base.events.values().filter(|e| e.kind == 5).cloned().collect();
    for r in recs {
        match &r.op {
            Op::Store(e) => {
                if let Some(a) = e.addr() {
                    let _ = addrs.insert(a);
                }
                if e.kind == 5 {
                    requests.push(e.clone());
                }
            }
            Op::AddrDeleted(a) | Op::Holder(a) => {
                let _ = addrs.insert(a.clone());
            }
            _ => {}
        }
    }
    for a in &addrs {
        if let Ok(Some(t)) = store.naddr_is_deleted_asof(&real::addr_of(a)) {
            let named_by_author = requests.iter().any(|d| d.pk == a.pk && d.tags.iter().any(|t| t.len() >= 2 && t[0] == "a" && parse_a_target(&t[1]).map(|x| norm_target(x).0 == *a || parse_a_target(&t[1]).as_ref() == Some(a)).unwrap_or(false)));
            if !named_by_author {
                out.push(("C10", format!("the address {} carries a deletion marker (as of {}) although no request of its author names it", a.label(), t.as_u64())));
            }
        }
    }
    out
}

/// What a single answer shows by itself, whatever the order of the operations was.
fn answer_invariants(base: &Model, recs: &[OpRecord]) -> Vec<(&'static str, String)> {
    let mut out: Vec<(&'static str, String)> = vec![];
    let mut specs: BTreeMap<B32, EvSpec> = base.events.clone();
    for r in recs {
        if let Op::Store(e) = &r.op {
            let _ = specs.insert(e.id, e.clone());
        }
    }
    for r in recs {
        match (&r.op, &r.out) {
            (Op::Stats, Outcome::Stats(Ok(c))) => {
                if c.iter().any(|x| *x != c[0]) {
                    out.push(("C17", format!("one statistics report counts {} id, {} time, {} author and {} author-kind entries", c[0], c[1], c[2], c[3])));
                }
            }
            (Op::Query(q), Outcome::Query(QueryOutcomeC::Ok(ids, _))) => {
                let mut seen: BTreeSet<B32> = BTreeSet::new();
                let mut addrs: BTreeSet<AddrKey> = BTreeSet::new();
                let mut last_at: Option<u64> = None;
                for id in ids {
                    if !seen.insert(*id) {
                        out.push(("C05", format!("one answer lists {} twice", short(id))));
                    }
                    if let Some(e) = specs.get(id) {
                        if let Some(a) = e.addr() {
                            if !addrs.insert(a.clone()) {
                                out.push(("C09", format!("one answer holds two events of the address {}", a.label())));
                            }
                        }
                        if is_ephemeral(e.kind) {
                            out.push(("C18", format!("an answer holds the ephemeral event {}", short(id))));
                        }
                        if let Some(l) = last_at {
                            if e.at > l {
                                out.push(("C05", "an answer is not ordered newest first".to_string()));
                            }
                        }
                        last_at = Some(e.at);
                    }
                }
                if let Some(l) = q.limit {
                    if ids.len() > l as usize {
                        out.push(("C05", format!("an answer holds {} events under limit {}", ids.len(), l)));
                    }
                }
            }
            (Op::IsDeleted(id), Outcome::IsDeleted(Ok(true))) => {
                // somebody entitled must have asked for it: a request of the event's author (of
                // anybody, if nobody ever submitted the event) naming the id
                let author = specs.get(id).map(|e| e.pk);
                let namers: Vec<&EvSpec> = specs.values().filter(|d| d.kind == 5 && d.tags.iter().any(|t| t.len() >= 2 && t[0] == "e" && parse_e_target(&t[1]) == Some(*id))).collect();
                let entitled = namers.iter().any(|d| author.map(|a| a == d.pk).unwrap_or(true));
                if !entitled {
                    if namers.is_empty() {
                        out.push(("C11", format!("{} is reported deleted although no request names it", short(id))));
                    } else {
                        out.push(("C10", format!("{} is reported deleted although only requests of other authors name it", short(id))));
                    }
                }
            }
            (Op::AddrDeleted(a), Outcome::AddrDeleted(Ok(Some(t)))) => {
                let namers: Vec<&EvSpec> = specs.values().filter(|d| d.kind == 5 && d.tags.iter().any(|t| t.len() >= 2 && t[0] == "a" && parse_a_target(&t[1]).as_ref() == Some(a))).collect();
                if !namers.iter().any(|d| d.pk == a.pk) {
                    // nobody entitled ever asked for it: whatever put the marker there was somebody
                    // else's doing
                    out.push(("C10", format!("the address {} is reported deleted (as of {t}) although no request of its author names it", a.label())));
                } else if !namers.iter().any(|d| d.pk == a.pk && d.at == *t) {
                    if namers.iter().any(|d| d.pk != a.pk && d.at == *t) {
                        out.push(("C10", format!("the address {} is reported deleted as of {t}, the time of a request by another author", a.label())));
                    } else {
                        out.push(("C11", format!("the address {} is reported deleted as of {t}, the time of no request of its author", a.label())));
                    }
                }
            }
            (Op::Holder(a), Outcome::Holder(Ok(Some((id, _))))) => {
                if let Some(e) = specs.get(id) {
                    if e.addr().as_ref() != Some(a) {
                        out.push(("C09", format!("the lookup of the address {} returned {}, an event of another address", a.label(), short(id))));
                    }
                }
            }
            _ => {}
        }
    }
    // what one thread sees one after the other: a deletion never goes away, its time never decreases
    let nthreads = recs.iter().map(|r| r.thread + 1).max().unwrap_or(0);
    for t in 0..nthreads {
        let mut mine: Vec<&OpRecord> = recs.iter().filter(|r| r.thread == t).collect();
        mine.sort_by_key(|r| r.idx);
        let mut seen_del: BTreeSet<B32> = BTreeSet::new();
        let mut seen_addr: BTreeMap<AddrKey, u64> = BTreeMap::new();
        for r in mine {
            match (&r.op, &r.out) {
                (Op::IsDeleted(id), Outcome::IsDeleted(Ok(b))) => {
                    if *b {
                        let _ = seen_del.insert(*id);
                    } else if seen_del.contains(id) {
                        out.push(("C11", format!("thread {t} saw {} deleted and later not deleted", short(id))));
                    }
                }
                (Op::AddrDeleted(a), Outcome::AddrDeleted(Ok(v))) => {
                    let prev = seen_addr.get(a).copied();
                    match (prev, v) {
                        (Some(p), None) => out.push(("C11", format!("thread {t} saw the address {} deleted as of {p} and later not deleted", a.label()))),
                        (Some(p), Some(n)) if *n < p => out.push(("C11", format!("thread {t} saw the deletion time of {} go back from {p} to {n}", a.label()))),
                        _ => {}
                    }
                    if let Some(n) = v {
                        let _ = seen_addr.insert(a.clone(), *n);
                    }
                }
                _ => {}
            }
        }
    }
    out
}

/// Nothing runs any more: every event that took part must be reachable through its id, its
/// author and its author+kind alike, or through none of them.
fn path_agreement(store: &Store, base: &Model, recs: &[OpRecord]) -> Vec<(&'static str, String)> {
    let mut out: Vec<(&'static str, String)> = vec![];
    let mut specs: BTreeMap<B32, EvSpec> = BTreeMap::new();
    for id in &base.retrievable {
        let _ = specs.insert(*id, base.events[id].clone());
    }
    for r in recs {
        if let (Op::Store(e), Outcome::Store(StoreOutcome::Ok(_))) = (&r.op, &r.out) {
            let _ = specs.insert(e.id, e.clone());
        }
    }
    let vanished: BTreeSet<B32> = recs.iter().filter_map(|r| if let Op::Vanish(pk) = &r.op { Some(*pk) } else { None }).collect();
    let mut by_author: BTreeMap<B32, BTreeSet<B32>> = BTreeMap::new();
    let mut by_author_kind: BTreeMap<(B32, u16), BTreeSet<B32>> = BTreeMap::new();
    for e in specs.values() {
        if !by_author.contains_key(&e.pk) {
            let q = QuerySpec { authors: vec![e.pk], ..QuerySpec::all_allowed() };
            if let QueryOutcome::Ok(ids, _) = real::query(store, &q) {
                let _ = by_author.insert(e.pk, ids.into_iter().collect());
            }
        }
        if !by_author_kind.contains_key(&(e.pk, e.kind)) {
            let q = QuerySpec { authors: vec![e.pk], kinds: vec![e.kind], ..QuerySpec::all_allowed() };
            if let QueryOutcome::Ok(ids, _) = real::query(store, &q) {
                let _ = by_author_kind.insert((e.pk, e.kind), ids.into_iter().collect());
            }
        }
    }
    // ... and through each of its single-letter tag values
    let mut by_tag: BTreeMap<(char, String), BTreeSet<B32>> = BTreeMap::new();
    let own_tags = |e: &EvSpec| -> Vec<(char, String)> {
        e.tags
            .iter()
            .filter(|t| t.len() >= 2 && t[0].len() == 1 && t[0].chars().all(|c| c.is_ascii_alphabetic()) && t[1].len() <= 400)
            .map(|t| (t[0].chars().next().unwrap(), t[1].clone()))
            .collect()
    };
    for e in specs.values() {
        for (l, v) in own_tags(e).into_iter().take(6) {
            if !by_tag.contains_key(&(l, v.clone())) {
                let q = QuerySpec { tags: vec![(l, vec![v.clone()])], ..QuerySpec::all_allowed() };
                if let QueryOutcome::Ok(ids, _) = real::query(store, &q) {
                    let _ = by_tag.insert((l, v), ids.into_iter().collect());
                }
            }
        }
    }
    for (id, e) in &specs {
        let has = store.has_event(pocket_types::Id::from_bytes(*id)).unwrap_or(false);
        for (l, v) in own_tags(e).into_iter().take(6) {
            if let Some(set) = by_tag.get(&(l, v.clone())) {
                if set.contains(id) != has {
                    let why = format!("{} is {} by id but {} through its tag {l}={:?}", short(id), if has { "retrievable" } else { "not retrievable" }, if set.contains(id) { "returned" } else { "not returned" }, v.chars().take(20).collect::<String>());
                    out.push(("C17", why.clone()));
                    if vanished.contains(&e.pk) {
                        out.push(("C18", why));
                    }
                    return out;
                }
            }
        }
    }
    for (id, e) in &specs {
        let has = store.has_event(pocket_types::Id::from_bytes(*id)).unwrap_or(false);
        let a = by_author.get(&e.pk).map(|s| s.contains(id));
        let ak = by_author_kind.get(&(e.pk, e.kind)).map(|s| s.contains(id));
        for (name, got) in [("author", a), ("author and kind", ak)] {
            if let Some(g) = got {
                if g != has {
                    let why = format!("{} is {} by id but {} through its {}", short(id), if has { "retrievable" } else { "not retrievable" }, if g { "returned" } else { "not returned" }, name);
                    out.push(("C17", why.clone()));
                    if vanished.contains(&e.pk) {
                        out.push(("C18", why));
                    }
                    return out;
                }
            }
        }
    }
    out
}

fn sig_of_events(ctl: &Ctl) -> u64 {
    let g = ctl.m.lock().unwrap();
    let mut sig: u64 = 0xcbf2_9ce4_8422_2325;
    for (_, t, from) in &g.events {
        sig = (sig ^ fnv1a(format!("{t}:{from}").as_bytes())).wrapping_mul(0x0000_0100_0000_01B3);
    }
    sig
}

/// the probing universe must include everything the threads touched
fn model_universe(base: &Model, recs: &[OpRecord]) -> Model {
    let mut m = base.clone();
    for r in recs {
        match &r.op {
            Op::Store(e) => {
                m.note_event(e);
                if let Outcome::Store(StoreOutcome::Ok(off)) = &r.out {
                    let _ = m.offsets.insert(*off, (e.id, e.size()));
                }
            }
            Op::Remove(id) | Op::Get(id) | Op::Has(id) | Op::IsDeleted(id) => {
                if !m.events.contains_key(id) {
                    let _ = m.named_ids.insert(*id);
                }
            }
            Op::AddrDeleted(a) | Op::Holder(a) => {
                let _ = m.addr_universe.insert(a.clone());
            }
            _ => {}
        }
    }
    m
}

// ------------------------------------------------------------------ minimisation

fn fails_same(t: &Trace, target: &Target) -> Option<Vec<u8>> {
    let n = std::sync::atomic::AtomicU64::new(0);
    let _ = n;
    let scratch = crate::runner::scratch_root().join(format!("m{}", fnv1a(t.to_text().as_bytes())));
    let (known_open, _) = crate::runner::load_known(&format!("{}/KNOWN_FINDINGS.txt", crate::verif_root()));
    let r = run_conc_full(t, scratch, false, &known_open);
    match r.result.finding {
        Some(f) if f.clause == target.clause && f.props.iter().any(|p| target.props.iter().any(|q| q == p)) => Some(r.schedule),
        _ => None,
    }
}

/// Fix the schedule that failed, then drop base ops, thread ops and schedule entries while the
/// same clause still fails; finally reduce context switches.
pub fn minimize_conc(trace: &Trace, target: &Target, _known: &BTreeSet<String>) -> Trace {
    let mut best = trace.clone();
    // 1. pin the schedule
    match fails_same(&best, target) {
        Some(s) => best.schedule = s,
        None => return best,
    }
    let mut budget = 400;
    // 2. drop base ops
    let mut i = 0;
    while i < best.ops.len() && budget > 0 {
        let mut t = best.clone();
        let _ = t.ops.remove(i);
        budget -= 1;
        if let Some(s) = fails_same(&t, target) {
            t.schedule = s;
            best = t;
        } else {
            i += 1;
        }
    }
    // 3. drop thread ops (keep at least one op per thread so that indexes stay meaningful)
    for th in 0..best.threads.len() {
        let mut i = 0;
        while i < best.threads[th].len() && budget > 0 {
            let mut t = best.clone();
            let _ = t.threads[th].remove(i);
            budget -= 1;
            if let Some(s) = fails_same(&t, target) {
                t.schedule = s;
                best = t;
            } else {
                i += 1;
            }
        }
    }
    // 4. fewer context switches: try to make each thread run longer
    let mut i = 1;
    while i < best.schedule.len() && budget > 0 {
        if best.schedule[i] != best.schedule[i - 1] {
            let mut t = best.clone();
            t.schedule[i] = t.schedule[i - 1];
            budget -= 1;
            if let Some(s) = fails_same(&t, target) {
                t.schedule = s;
                best = t;
                continue;
            }
        }
        i += 1;
    }
    best
}
