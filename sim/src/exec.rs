//! The executor: drives the REAL Store through a trace, one op at a time, next to the
//! reference model; evaluates the oracle clauses; owns the fault engines of the sequential
//! modes (snapshot-crash, fail-points, clock, forced remap, restart kinds).

use crate::hooks::{self, SeqHooks};
use crate::model::*;
use crate::obs::{self, Obs, ObsOpts, EXTRA_NAMES};
use crate::real::{self, StoreOutcome};
use crate::rng::fnv1a;
use crate::spec::*;
use pocket_db::Store;
use pocket_types::OwnedEvent;
use std::collections::{BTreeMap, BTreeSet};
use std::fs;
use std::path::{Path, PathBuf};
use std::sync::Arc;

#[derive(Clone, Debug)]
pub struct Finding {
    pub clause: String,
    pub props: Vec<&'static str>,
    pub detail: String,
    pub op_index: usize,
}

/// completed remaps of the event map in this process (sequential modes), counted inside the
/// vendored dependency whichever code path asked for them
pub static SEQ_REMAPS: std::sync::atomic::AtomicU64 = std::sync::atomic::AtomicU64::new(0);

fn seq_map_hook(name: &'static str) {
    if name == "mmap:resize_done" {
        let _ = SEQ_REMAPS.fetch_add(1, std::sync::atomic::Ordering::SeqCst);
    }
}

#[derive(Clone, Debug)]
pub struct Known {
    pub props: &'static [&'static str],
    pub sig: &'static str,
    pub detail: String,
}

#[derive(Default, Clone, Debug)]
pub struct Stats(pub BTreeMap<String, u64>);
impl Stats {
    pub fn inc(&mut self, k: &str) {
        *self.0.entry(k.to_string()).or_insert(0) += 1;
    }
    pub fn add(&mut self, k: &str, n: u64) {
        *self.0.entry(k.to_string()).or_insert(0) += n;
    }
    pub fn get(&self, k: &str) -> u64 {
        self.0.get(k).copied().unwrap_or(0)
    }
    pub fn merge(&mut self, other: &Stats) {
        for (k, v) in &other.0 {
            *self.0.entry(k.clone()).or_insert(0) += v;
        }
    }
}

pub struct RunResult {
    pub finding: Option<Finding>,
    pub known: Vec<Known>,
    pub stats: Stats,
    pub log: Vec<String>,
    /// hash of (op kind, outcome class, model shape) sequence: the "distinct state" measure
    pub signature: u64,
    pub ops_executed: usize,
}

struct LiveRef {
    id: B32,
    offset: u64,
    addr: usize,
    expect: String,
}

pub struct Sim {
    pub cfg: Cfg,
    pub scratch: PathBuf,
    pub dir: PathBuf,
    dir_counter: u64,
    pub store: Option<Store>,
    pub model: Model,
    pub stats: Stats,
    pub log: Vec<String>,
    pub known: Vec<Known>,
    /// signatures listed in KNOWN_FINDINGS.txt as open findings
    pub known_open: BTreeSet<String>,
    enc: BTreeMap<B32, OwnedEvent>,
    refs: Vec<LiveRef>,
    blockers: Vec<(usize, usize)>,
    hooks: Arc<SeqHooks>,
    last_obs: Option<Obs>,
    pending_crash: Option<u32>,
    pending_fail: Option<u32>,
    /// completed remaps of the event map when the current store began
    remaps_before: u64,
    /// the extra tables are listed in reverse order at the next open (`tables n` with n >= 10)
    tables_reversed: bool,
    pending_starve: bool,
    pending_fsize: Option<u8>,
    /// end the run without a finding (the state left is one no property speaks about)
    stop: bool,
    /// a plain file sits where rebuild wants to put its index backup
    backup_blocked: bool,
    sparse_requests_observed: u32,
    had_restart: bool,
    had_crash: bool,
    /// a store returned an error since the last restart (what it left behind may surface there)
    failed_store_since_restart: bool,
    /// the event whose store failed last with an injected or environmental error (a retry of it
    /// must behave like the store of an event that never failed)
    last_faulted_store: Option<B32>,
    /// probes on which this run already deviated in a way that only speaks for OTHER properties
    /// than the one under check: they are not looked at again (the run goes on)
    masked: BTreeSet<String>,
    other_finding: Option<Finding>,
    sig_acc: u64,
    /// what kind of disturbance preceded (for attribution of unexpected errors)
    disturbed: Option<&'static str>,
    /// event.map length as seen before the current op (growth detection)
    pub verbose: bool,
    fresh_counter: u64,
}

fn extra_names(n: u8, reversed: bool) -> Vec<&'static str> {
    let mut v = EXTRA_NAMES[..n as usize].to_vec();
    if reversed {
        v.reverse();
    }
    v
}

fn file_len(p: &Path) -> u64 {
    fs::metadata(p).map(|m| m.len()).unwrap_or(0)
}

impl Sim {
    pub fn new(cfg: Cfg, scratch: PathBuf, known_open: BTreeSet<String>) -> Sim {
        let hooks = hooks::new_seq_hooks();
        Sim {
            cfg,
            dir: scratch.join("d0"),
            scratch,
            dir_counter: 0,
            store: None,
            model: Model::default(),
            stats: Stats::default(),
            log: vec![],
            known: vec![],
            known_open,
            enc: BTreeMap::new(),
            refs: vec![],
            blockers: vec![],
            hooks,
            last_obs: None,
            pending_crash: None,
            pending_fail: None,
            remaps_before: 0,
            tables_reversed: false,
            pending_starve: false,
            pending_fsize: None,
            stop: false,
            backup_blocked: false,
            sparse_requests_observed: 0,
            had_restart: false,
            had_crash: false,
            failed_store_since_restart: false,
            last_faulted_store: None,
            masked: BTreeSet::new(),
            other_finding: None,
            sig_acc: 0xcbf2_9ce4_8422_2325,
            disturbed: None,
            verbose: false,
            fresh_counter: 0,
        }
    }

    /// fidelity probe: kill this process / snapshot into `fid_dir` at a global point index
    pub fn configure_fidelity(&self, kill_at: Option<u64>, snap_at: Option<u64>, fid_dir: PathBuf) {
        let mut st = self.hooks.st.lock().unwrap();
        st.kill_at_global = kill_at;
        st.snap_at_global = snap_at;
        st.fid_dir = fid_dir;
    }

    pub fn fidelity_taken(&self) -> (u64, Option<(PathBuf, &'static str)>) {
        let st = self.hooks.st.lock().unwrap();
        (st.global_points, st.fid_taken.clone())
    }

    fn finding(&self, i: usize, clause: &str, props: &[&'static str], detail: String) -> Finding {
        Finding { clause: clause.to_string(), props: props.to_vec(), detail, op_index: i }
    }

    /// A probe-based finding: report it if it speaks for the property under check; otherwise
    /// remember it, stop looking at the probes involved and let the run go on, so that a
    /// deviation that only concerns another property does not hide what this check is about.
    fn settle(&mut self, f: Finding, keys: Vec<String>) -> Option<Finding> {
        let target = self.cfg.prop.clone();
        let is_prop = target.len() == 3 && target.starts_with('C');
        if !is_prop || f.props.is_empty() || f.props.iter().any(|p| *p == target) || self.masked.len() > 400 {
            return Some(f);
        }
        for k in keys {
            let _ = self.masked.insert(k);
        }
        self.stats.inc("masked/other_property_clause");
        if self.other_finding.is_none() {
            self.other_finding = Some(f);
        }
        None
    }

    fn unmasked(&self, diffs: Vec<(String, String, String)>) -> Vec<(String, String, String)> {
        if self.masked.is_empty() {
            return diffs;
        }
        diffs.into_iter().filter(|(k, _, _)| !self.masked.contains(k)).collect()
    }

    fn disturb(&mut self, what: &'static str) {
        match what {
            "restart" => {
                self.had_restart = true;
            }
            "crash" => self.had_crash = true,
            _ => {}
        }
        self.disturbed = Some(what);
    }

    fn sig_mix(&mut self, s: &str) {
        self.sig_acc = (self.sig_acc ^ fnv1a(s.as_bytes())).wrapping_mul(0x0000_0100_0000_01B3).rotate_left(5);
    }

    fn encoded(&mut self, e: &EvSpec) -> OwnedEvent {
        if let Some(x) = self.enc.get(&e.id) {
            // the same id always carries the same spec in generated traces; minimised traces too
            if self.model.events.get(&e.id).map_or(true, |m| m == e) {
                return x.clone();
            }
        }
        let x = real::encode(e);
        let _ = self.enc.insert(e.id, x.clone());
        x
    }

    fn obs_opts(&self) -> ObsOpts {
        ObsOpts { battery: self.cfg.obs_level >= 1, extra: true, offsets: true }
    }

    fn observe(&mut self) -> Obs {
        let store = self.store.as_ref().expect("store open");
        self.stats.inc("observations");
        obs::observe_real(store, &self.model, &self.obs_opts(), self.cfg.extra_tables)
    }

    fn expected(&self) -> Obs {
        let enc = &self.enc;
        let f = |id: &B32| enc.get(id).map(|e| e.as_bytes().to_vec());
        obs::observe_model(&self.model, &f, &self.obs_opts(), self.cfg.extra_tables)
    }

    // ------------------------------------------------------------ hooks control

    fn hooks_begin(&self, snap_all: bool, fail_k: Option<u32>) {
        let mut st = self.hooks.st.lock().unwrap();
        st.recording = true;
        st.points.clear();
        st.snap_all = snap_all;
        st.src_dir = self.dir.clone();
        st.snap_root = self.scratch.clone();
        st.snaps.clear();
        st.fail_k = fail_k;
        st.fail_calls = 0;
        st.fail_names.clear();
        st.fired = None;
    }

    fn hooks_end(&self) -> (Vec<&'static str>, Vec<(usize, &'static str, PathBuf)>, Option<&'static str>, Vec<&'static str>) {
        let mut st = self.hooks.st.lock().unwrap();
        st.recording = false;
        st.snap_all = false;
        st.fail_k = None;
        (
            std::mem::take(&mut st.points),
            std::mem::take(&mut st.snaps),
            st.fired.take(),
            std::mem::take(&mut st.fail_names),
        )
    }

    // ------------------------------------------------------------ open / close

    /// Open the store at self.dir. In crash mode the open itself is a killable operation.
    fn open_store(&mut self, i: usize) -> Result<(), Finding> {
        let crash = self.cfg.mode == Mode::Crash;
        self.hooks_begin(crash, None);
        let dir = self.dir.clone();
        let names = extra_names(self.cfg.extra_tables, self.tables_reversed);
        let r = real::catch(|| Store::new(&dir, names));
        let (points, snaps, _, _) = self.hooks_end();
        self.stats.add("points_crossed", points.len() as u64);
        match r {
            Ok(Ok(s)) => self.store = Some(s),
            Ok(Err(e)) => {
                self.cleanup_snaps(&snaps);
                return Err(self.finding(i, "open-failed", &["C13", "C16"], format!("Store::new failed: {}", real::err_name(&e.inner))));
            }
            Err(p) => {
                self.cleanup_snaps(&snaps);
                return Err(self.finding(i, "open-panicked", &["C13", "C16"], format!("Store::new panicked: {p}")));
            }
        }
        if crash {
            // a kill during creation/open must leave a directory that opens to the same state
            let m = self.model.clone();
            self.check_snapshots(i, "open", snaps, &m, &m, &[], None)?;
        }
        Ok(())
    }

    fn close_store(&mut self) {
        self.refs.clear();
        self.remove_blockers();
        if let Some(s) = self.store.take() {
            let _ = real::catch(|| s.verif_close());
        }
    }

    fn cleanup_snaps(&self, snaps: &[(usize, &'static str, PathBuf)]) {
        for (_, _, d) in snaps {
            let _ = fs::remove_dir_all(d);
        }
    }

    pub fn finish(&mut self) {
        self.close_store();
        pocket_types::verif_clock::set(None);
    }

    // ------------------------------------------------------------ forced remap + references

    fn remove_blockers(&mut self) {
        for (addr, len) in self.blockers.drain(..) {
            unsafe {
                let _ = libc::munmap(addr as *mut libc::c_void, len);
            }
        }
    }

    /// Occupy the page just past the event map so that the next page-count-increasing growth
    /// must move the mapping (a legal kernel choice made certain).
    fn install_blocker(&mut self) {
        if !self.cfg.blocker {
            return;
        }
        self.remove_blockers();
        let store = match self.store.as_ref() {
            Some(s) => s,
            None => return,
        };
        let off = match self.model.offsets.keys().next() {
            Some(o) => *o,
            None => return,
        };
        let p = match store.get_event_by_offset(off) {
            Ok(e) => e.as_bytes().as_ptr() as usize,
            Err(_) => return,
        };
        let base = p - off as usize;
        let flen = file_len(&self.dir.join("event.map")) as usize;
        if flen == 0 || base % 4096 != 0 {
            return;
        }
        let maplen = (flen + 4095) / 4096 * 4096;
        let want = base + maplen;
        const MAP_FIXED_NOREPLACE: libc::c_int = 0x100000;
        let r = unsafe {
            libc::mmap(
                want as *mut libc::c_void,
                4096,
                libc::PROT_NONE,
                libc::MAP_PRIVATE | libc::MAP_ANONYMOUS | MAP_FIXED_NOREPLACE,
                -1,
                0,
            )
        };
        if r != libc::MAP_FAILED {
            if r as usize == want {
                self.blockers.push((want, 4096));
                self.stats.inc("fault/blocker_installed");
            } else {
                unsafe {
                    let _ = libc::munmap(r, 4096);
                }
            }
        }
    }

    fn take_ref(&mut self, i: usize, id: &B32) -> Option<Finding> {
        let store = self.store.as_ref().unwrap();
        let off = self.model.offsets.iter().filter(|(_, (x, _))| x == id).map(|(o, _)| *o).max();
        let off = match off {
            Some(o) => o,
            None => return None,
        };
        match store.get_event_by_offset(off) {
            Ok(e) => {
                let addr = e.as_bytes().as_ptr() as usize;
                let val = format!("{}B:{:016x}", e.as_bytes().len(), fnv1a(e.as_bytes()));
                self.refs.push(LiveRef { id: *id, offset: off, addr, expect: val });
                self.stats.inc("refs_taken");
                None
            }
            Err(e) => Some(self.finding(i, "ref-unreadable", &["C04"], format!("offset {off} unreadable: {}", real::err_name(&e.inner)))),
        }
    }

    /// C15: every live reference still denotes the same bytes at the same address
    fn check_refs(&mut self, i: usize, grew: bool) -> Option<Finding> {
        if self.refs.is_empty() {
            return None;
        }
        let store = self.store.as_ref().unwrap();
        let mut moved: Option<(u64, B32)> = None;
        let mut changed: Option<(u64, B32, String, String)> = None;
        let mut new_addrs = vec![];
        for r in &self.refs {
            match store.get_event_by_offset(r.offset) {
                Ok(e) => {
                    let addr = e.as_bytes().as_ptr() as usize;
                    new_addrs.push(addr);
                    if addr != r.addr {
                        if moved.is_none() {
                            moved = Some((r.offset, r.id));
                        }
                    } else {
                        // same address: the held reference and the fresh one are the same memory
                        let val = format!("{}B:{:016x}", e.as_bytes().len(), fnv1a(e.as_bytes()));
                        if val != r.expect && changed.is_none() {
                            changed = Some((r.offset, r.id, r.expect.clone(), val));
                        }
                    }
                }
                Err(e) => {
                    return Some(self.finding(
                        i,
                        "ref-unreadable",
                        &["C15", "C04"],
                        format!("offset {} of a held reference no longer readable: {}", r.offset, real::err_name(&e.inner)),
                    ))
                }
            }
        }
        self.stats.add("ref_checks", self.refs.len() as u64);
        if let Some((off, id, want, got)) = changed {
            return Some(self.finding(
                i,
                "ref-bytes-changed",
                &["C15", "C04"],
                format!("bytes under the held reference to {} (offset {off}) changed: {want} -> {got}", short(&id)),
            ));
        }
        if let Some((off, id)) = moved {
            if grew {
                self.stats.inc("fault/mapping_moved_on_growth");
                let sig = "growth-moved-mapping";
                if self.known_open.contains(sig) {
                    if !self.known.iter().any(|k| k.sig == sig) {
                        self.known.push(Known {
                            props: &["C15"],
                            sig,
                            detail: format!(
                                "a store that enlarged event.map moved the mapping: the reference held to {} (offset {off}) dangles",
                                short(&id)
                            ),
                        });
                    }
                    // adopt: the references are re-taken at the new addresses
                    for (r, a) in self.refs.iter_mut().zip(new_addrs) {
                        r.addr = a;
                    }
                    return None;
                }
                return Some(self.finding(
                    i,
                    "ref-moved-on-growth",
                    &["C15"],
                    format!("a store that enlarged event.map moved the mapping: the reference held to {} (offset {off}) dangles", short(&id)),
                ));
            }
            return Some(self.finding(
                i,
                "ref-moved-without-growth",
                &["C15"],
                format!("address of the held reference to {} (offset {off}) changed although event.map did not grow", short(&id)),
            ));
        }
        None
    }

    // ------------------------------------------------------------ main loop

    pub fn hooks_arc(&self) -> Arc<SeqHooks> {
        self.hooks.clone()
    }

    /// for the forked fidelity child: run, never clean up (the process is expected to be killed)
    pub fn run_no_cleanup(mut self, ops: &[Op]) -> bool {
        pocket_db::verif::install(Some(self.hooks.clone()));
        mmap_append::verif_set_hook(Some(seq_map_hook));
        let _ = fs::create_dir_all(&self.scratch);
        if self.open_store(0).is_err() {
            return false;
        }
        let o = self.observe();
        self.last_obs = Some(o);
        for (i, op) in ops.iter().enumerate() {
            if self.step(i, op).is_some() {
                return false;
            }
            if self.stop {
                break;
            }
        }
        true
    }

    pub fn run(mut self, ops: &[Op]) -> RunResult {
        pocket_db::verif::install(Some(self.hooks.clone()));
        mmap_append::verif_set_hook(Some(seq_map_hook));
        pocket_types::verif_clock::set(None);
        let _ = fs::create_dir_all(&self.scratch);
        let mut finding = None;
        let mut executed = 0;
        match self.open_store(0) {
            Err(f) => finding = Some(f),
            Ok(()) => {
                let o = self.observe();
                self.last_obs = Some(o);
                for (i, op) in ops.iter().enumerate() {
                    executed = i + 1;
                    if let Some(f) = self.step(i, op) {
                        finding = Some(f);
                        break;
                    }
                    if self.stop {
                        break;
                    }
                }
                if finding.is_none() && self.cfg.obs_level == 9 && !self.stop {
                    // the final observation of a sparsely observed run
                    let o = self.observe();
                    self.last_obs = Some(o);
                    let ctx = OpCtx { kind: CtxKind::Other, event: None, desc: "the whole history".into(), also: &[] };
                    finding = self.model_agrees(ops.len(), &ctx);
                }
            }
        }
        self.finish();
        pocket_db::verif::install(None);
        let _ = fs::remove_dir_all(&self.scratch);
        if finding.is_none() {
            // nothing about the property under check; report what the run saw about others
            finding = self.other_finding.take();
        }
        if let Some(f) = &finding {
            self.log.push(format!("FINDING at op {}: {} {:?} {}", f.op_index, f.clause, f.props, f.detail));
        }
        RunResult {
            finding,
            known: std::mem::take(&mut self.known),
            stats: std::mem::take(&mut self.stats),
            log: std::mem::take(&mut self.log),
            signature: self.sig_acc,
            ops_executed: executed,
        }
    }

    fn step(&mut self, i: usize, op: &Op) -> Option<Finding> {
        self.stats.inc(&format!("op/{}", op.kind_name()));
        if self.verbose {
            eprintln!("op {i}: {}", op.brief());
        }
        let r = match op {
            Op::Crash(k) => {
                self.pending_crash = Some(*k);
                None
            }
            Op::Fail(k) => {
                self.pending_fail = Some(*k);
                None
            }
            Op::Starve => {
                self.pending_starve = true;
                None
            }
            Op::Fsize(m) => {
                self.pending_fsize = Some(*m);
                None
            }
            Op::Clock(c) => {
                pocket_types::verif_clock::set(*c);
                self.model.clock = *c;
                self.stats.inc("fault/clock_set");
                self.log.push(format!("#{i} clock {:?}", c));
                None
            }
            Op::Store(e) => self.do_store(i, e),
            Op::Remove(id) => self.do_remove(i, id),
            Op::Vanish(pk) => self.do_vanish(i, pk),
            Op::Query(q) => self.do_query(i, q),
            Op::Reopen(k) => self.do_reopen(i, *k),
            Op::Tables(n) => self.do_tables(i, *n),
            Op::Rebuild => self.do_rebuild(i),
            Op::ExtraPut(t, k, v) => self.do_extra(i, *t, k, Some(v)),
            Op::ExtraDel(t, k) => self.do_extra(i, *t, k, None),
            Op::TakeRef(id) => self.take_ref(i, id),
            Op::Inflate(end) => self.do_inflate(i, *end),
            Op::InflateOnto(distance, id) => {
                let off = self.model.offsets.iter().find(|(_, (x, _))| x == id).map(|(o, _)| *o);
                match off {
                    Some(o) => self.do_inflate(i, distance + o),
                    None => None,
                }
            }
            Op::Get(_) | Op::Has(_) | Op::Stats | Op::IsDeleted(_) | Op::AddrDeleted(_) | Op::Holder(_) | Op::GetOff(_) => None,
            Op::RemoveBackup(which) => {
                let e = self.dir.join("event.map.bak");
                let l = self.dir.join("lmdb.bak");
                if (*which == 0 || *which == 2) && e.exists() {
                    let _ = fs::remove_file(&e);
                    self.stats.inc("fault/backup_part_removed");
                }
                if (*which == 1 || *which == 2) && l.exists() {
                    let _ = fs::remove_dir_all(&l);
                    self.stats.inc("fault/backup_part_removed");
                }
                if *which == 3 && l.is_dir() {
                    // something that is not a directory sits where the index backup goes: the next
                    // rebuild cannot clear the way (ENOTDIR) and may fail - leaving a store
                    let _ = fs::remove_dir_all(&l);
                    if fs::write(&l, b"not a directory").is_ok() {
                        self.backup_blocked = true;
                        self.stats.inc("fault/backup_path_blocked");
                    }
                }
                None
            }
            Op::Sync => {
                // a sync changes nothing observable
                self.stats.inc("op_sync");
                let r = real::catch(|| self.store.as_ref().unwrap().sync());
                match r {
                    Ok(Ok(())) => {
                        let o = self.observe();
                        self.last_obs = Some(o);
                        let ctx = OpCtx { kind: CtxKind::Other, event: None, desc: "sync".into(), also: &["C04", "C15"] };
                        self.model_agrees(i, &ctx)
                    }
                    Ok(Err(e)) => Some(self.finding(i, "sync-failed", &[], format!("harness: sync failed: {}", real::err_name(&e.inner)))),
                    Err(p) => Some(self.finding(i, "sync-panicked", &["C04"], format!("sync panicked: {p}"))),
                }
            }
        };
        if !op.is_modifier() {
            // modifiers apply to the very next op only
            if !matches!(op, Op::Store(_) | Op::Remove(_) | Op::Vanish(_)) {
                self.pending_crash = None;
                self.pending_fail = None;
                self.pending_starve = false;
                self.pending_fsize = None;
            }
        }
        r
    }

    /// Compare the real store with the model after a mutating op; attribute the first mismatch.
    fn check_against_model(&mut self, i: usize, ctx: &OpCtx) -> Option<Finding> {
        let sparse_skip = if self.cfg.obs_level == 9 && ctx.kind == CtxKind::Store {
            let is_request = ctx.event.as_ref().map(|e| e.kind == 5).unwrap_or(false);
            // (requests are observed while that is cheap: in small stores, and the first few of a
            // long series)
            if is_request && (self.model.events.len() <= 300 || self.sparse_requests_observed < 6) {
                self.sparse_requests_observed += 1;
                false
            } else {
                true
            }
        } else {
            false
        };
        if sparse_skip {
            // bulk histories: stores are not observed one by one (the observation after the next
            // deletion request / removal / vanish / restart, and the final one, cover them)
            self.last_obs = None;
            return None;
        }
        let real = self.observe();
        let exp = self.expected();
        let mut result = None;
        let diffs = self.unmasked(obs::all_diffs(&exp, &real));
        if !diffs.is_empty() {
            let (b, clause, mut props) = self.attribute_all(&diffs, ctx);
            if ctx.kind == CtxKind::Store && ctx.event.as_ref().map(|e| Some(e.id) == self.last_faulted_store).unwrap_or(false) && !props.contains(&"C12") {
                // the same event failed to be stored a moment ago (injected or environmental
                // error) and its retry now deviates: the failed call left something behind
                props.push("C12");
            }
            if self.cfg.mode == Mode::Crash && !props.contains(&"C13") {
                // in crash runs every completed call is also what a reopen must reflect
                props.push("C13");
            }
            let (k, want, got) = &diffs[b];
            let f = self.finding(
                i,
                &clause,
                &props,
                format!("after {}: probe {} shows {} but the model requires {} ({} probes differ)", ctx.desc, shorten_key(k), got, want, diffs.len()),
            );
            let keys: Vec<String> = diffs.iter().map(|(k, _, _)| k.clone()).collect();
            result = self.settle(f, keys);
        }
        self.log.push(format!("#{i} obs {:016x}", hash_obs(&real)));
        self.last_obs = Some(real);
        result
    }

    /// `last_obs` against the model, with masking and settling
    fn model_agrees(&mut self, i: usize, ctx: &OpCtx) -> Option<Finding> {
        let exp = self.expected();
        let real = self.last_obs.clone().unwrap_or_default();
        let diffs = self.unmasked(obs::all_diffs(&exp, &real));
        if diffs.is_empty() {
            return None;
        }
        let (b, clause, props) = self.attribute_all(&diffs, ctx);
        let (k, want, got) = &diffs[b];
        let f = self.finding(i, &clause, &props, format!("after {}: probe {} shows {} but the model requires {} ({} probes differ)", ctx.desc, shorten_key(k), got, want, diffs.len()));
        let keys: Vec<String> = diffs.iter().map(|(k, _, _)| k.clone()).collect();
        self.settle(f, keys)
    }

    /// Attribute a set of differing probes: the reported probe is the most specific one
    /// (a lookup / marker / holder probe rather than a count or a battery filter), the
    /// properties are the union over (up to 16 of) the differing probes.
    fn attribute_all(&self, diffs: &[(String, String, String)], ctx: &OpCtx) -> (usize, String, Vec<&'static str>) {
        let rank = |k: &str| -> u32 {
            match k.split('/').next().unwrap_or("") {
                "off" | "byid" | "has" => 0,
                "deladdr" | "delid" | "repl" | "prepl" => 1,
                "extra" => 2,
                "count" => 3,
                _ => 4,
            }
        };
        let mut best = 0usize;
        for (n, (k, _, _)) in diffs.iter().enumerate() {
            if rank(k) < rank(&diffs[best].0) {
                best = n;
            }
        }
        let (clause, mut props) = self.attribute(&diffs[best].0, &diffs[best].1, &diffs[best].2, ctx);
        for (n, (k, w, g)) in diffs.iter().enumerate().take(16) {
            if n == best {
                continue;
            }
            let (_, p2) = self.attribute(k, w, g, ctx);
            for p in p2 {
                if !props.contains(&p) {
                    props.push(p);
                }
            }
        }
        (best, clause, props)
    }

    fn attribute(&self, key: &str, want: &str, got: &str, ctx: &OpCtx) -> (String, Vec<&'static str>) {
        let kind = key.split('/').next().unwrap_or("");
        let subject: Option<B32> = key.split('/').nth(1).and_then(|h| unhex32(h).ok());
        let mut props: Vec<&'static str> = vec![];
        let clause;
        match kind {
            "off" => {
                clause = "bytes-at-offset";
                props.push("C04");
                if ctx.kind != CtxKind::Restart {
                    // within one Store lifetime an acknowledged offset is also a reference
                    props.push("C15");
                }
            }
            "has" | "byid" => {
                let is_self = ctx.event.as_ref().map(|e| Some(e.id) == subject).unwrap_or(false);
                if is_self {
                    let e = ctx.event.as_ref().unwrap();
                    if is_ephemeral(e.kind) {
                        clause = "ephemeral-retrievable";
                        props.push("C18");
                    } else {
                        clause = "stored-event-lookup";
                        props.push("C04");
                    }
                } else if want == "true" || (kind == "byid" && want != "none") {
                    // an event that must still be retrievable is gone or changed
                    if got != "false" && got != "none" && kind == "byid" {
                        clause = "bytes-by-id";
                        props.push("C04");
                    } else {
                        clause = "event-lost";
                        match ctx.kind {
                            CtxKind::Store => {
                                let subj = subject.and_then(|s| self.model.events.get(&s));
                                let ev = ctx.event.as_ref();
                                let same_addr = match (subj, ev) {
                                    (Some(s), Some(e)) => s.addr().is_some() && s.addr() == e.addr(),
                                    _ => false,
                                };
                                let is_del = ev.map(|e| e.kind == 5).unwrap_or(false);
                                if is_del {
                                    let foreign = match (subj, ev) {
                                        (Some(s), Some(e)) => s.pk != e.pk,
                                        _ => false,
                                    };
                                    if foreign {
                                        props.push("C10");
                                    } else {
                                        props.push("C11");
                                        props.push("C09");
                                    }
                                } else if same_addr {
                                    props.push("C09");
                                } else {
                                    props.push("C09");
                                    props.push("C04");
                                }
                            }
                            CtxKind::Remove => props.push("C18"),
                            CtxKind::Restart => {
                                props.push("C16");
                                props.push("C04");
                            }
                            CtxKind::Other => props.push("C04"),
                        }
                    }
                } else {
                    // an event that must not be retrievable is
                    clause = "event-survived";
                    match ctx.kind {
                        CtxKind::Store => {
                            let is_del = ctx.event.as_ref().map(|e| e.kind == 5).unwrap_or(false);
                            if is_del {
                                props.push("C11");
                            } else {
                                props.push("C09");
                            }
                        }
                        CtxKind::Remove => props.push("C18"),
                        CtxKind::Restart => {
                            props.push("C16");
                            props.push("C11");
                        }
                        CtxKind::Other => props.push("C18"),
                    }
                }
            }
            "delid" | "deladdr" => {
                clause = "deletion-marker";
                match ctx.kind {
                    CtxKind::Store => {
                        let foreign = match (&ctx.event, kind) {
                            (Some(e), "delid") => subject.and_then(|s| self.model.events.get(&s)).map(|s| s.pk != e.pk).unwrap_or(false),
                            (Some(e), _) => key.split('/').nth(2).and_then(|h| unhex32(h).ok()).map(|pk| pk != e.pk).unwrap_or(false),
                            _ => false,
                        };
                        if foreign {
                            props.push("C10");
                        } else {
                            props.push("C11");
                        }
                    }
                    CtxKind::Remove => props.push("C18"),
                    CtxKind::Restart => {
                        props.push("C16");
                        props.push("C11");
                        // a marker whose request has been removed (by id or by vanish) since: removal
                        // leaves markers untouched, now and for good
                        let names_subject = |d: &EvSpec| -> bool {
                            d.tags.iter().any(|t| {
                                t.len() >= 2
                                    && match kind {
                                        "delid" => t[0] == "e" && parse_e_target(&t[1]) == subject,
                                        _ => {
                                            t[0] == "a"
                                                && parse_a_target(&t[1])
                                                    .map(|a| key == format!("deladdr/{}/{}/{}", a.kind, hex(&a.pk), hex(&a.d)))
                                                    .unwrap_or(false)
                                        }
                                    }
                            })
                        };
                        if self.model.events.values().any(|d| d.kind == 5 && !self.model.retrievable.contains(&d.id) && names_subject(d)) {
                            props.push("C18");
                        }
                    }
                    CtxKind::Other => props.push("C11"),
                }
            }
            "repl" | "prepl" => {
                clause = "address-holder";
                props.push("C09");
                match ctx.kind {
                    CtxKind::Remove => props.push("C18"),
                    CtxKind::Restart => props.push("C16"),
                    _ => {}
                }
            }
            "count" => {
                clause = "index-count";
                props.push("C17");
                if ctx.kind == CtxKind::Restart {
                    props.push("C16");
                }
            }
            "bat" => {
                clause = "self-derived-filter";
                props.push("C17");
                props.push("C05");
                match ctx.kind {
                    CtxKind::Remove => props.push("C18"),
                    CtxKind::Restart => props.push("C16"),
                    _ => {}
                }
                // which events does the answer hold that it should not (or lack)? Two events of one
                // replaceable address in one answer speak for C09; an event covered by an accepted
                // deletion of its author for C11; an ephemeral one for C18
                let ids_of = |v: &str| -> Vec<B32> { v.split(|c: char| c == ',' || c == ' ').filter_map(|h| unhex32(h).ok()).collect() };
                let got_ids = ids_of(got);
                let want_ids = ids_of(want);
                let mut addrs: BTreeSet<AddrKey> = BTreeSet::new();
                let mut two_at_one_address = false;
                for id in &got_ids {
                    if let Some(e) = self.model.events.get(id) {
                        if let Some(a) = e.addr() {
                            if !addrs.insert(a) {
                                two_at_one_address = true;
                            }
                        }
                        if !want_ids.contains(id) {
                            if is_ephemeral(e.kind) && !props.contains(&"C18") {
                                props.push("C18");
                            }
                            let covered = self.model.deleted_ids.contains(id) || e.addr().and_then(|a| self.model.deleted_addrs.get(&a).copied()).map(|t| e.at <= t).unwrap_or(false);
                            if covered && !props.contains(&"C11") {
                                props.push("C11");
                            }
                        }
                    }
                }
                if two_at_one_address && !props.contains(&"C09") {
                    props.push("C09");
                }
            }
            "extra" => {
                clause = "extra-table";
                match ctx.kind {
                    CtxKind::Restart => props.push("C16"),
                    _ => props.push("C18"),
                }
            }
            _ => {
                clause = "observation";
                props.push("C17");
            }
        }
        for p in ctx.also {
            if !props.contains(p) {
                props.push(p);
            }
        }
        // a mismatch in a run that went through a restart / a recovery also speaks for the
        // statement that the restart / recovery "changes nothing" (latent damage)
        if matches!(kind, "has" | "byid" | "off" | "bat" | "count" | "delid" | "deladdr") {
            if self.had_restart && !props.contains(&"C16") {
                props.push("C16");
            }
            if self.had_crash && !props.contains(&"C13") {
                props.push("C13");
            }
        }
        (clause.to_string(), props)
    }

    /// did the map grow (or was it remapped: a store that failed earlier may have lengthened the
    /// file without remapping, so that a later growth remaps at an unchanged file length) since the
    /// current store began?
    fn grew_since(&self, before_len: u64) -> bool {
        file_len(&self.dir.join("event.map")) != before_len || SEQ_REMAPS.load(std::sync::atomic::Ordering::SeqCst) != self.remaps_before
    }

    // ------------------------------------------------------------ store

    fn do_store(&mut self, i: usize, e: &EvSpec) -> Option<Finding> {
        let ev = self.encoded(e);
        self.model.note_event(e);
        let map_len_before = file_len(&self.dir.join("event.map"));
        self.remaps_before = SEQ_REMAPS.load(std::sync::atomic::Ordering::SeqCst);

        // --- the kernel refuses to let the files grow (RLIMIT_FSIZE) while this store runs
        if let Some(mode) = self.pending_fsize.take() {
            // (in crash runs this one store is not snapshotted: the snapshots could not be written)
            if self.pending_crash.is_none() {
                let _ = self.pending_fail.take();
                let before = self.last_obs.clone().unwrap_or_else(|| self.observe());
                let limit = self.fsize_limit(mode);
                self.hooks_begin(false, None);
                let out = with_fsize_limit(limit, || real::store_event(self.store.as_ref().unwrap(), &ev));
                let (points, _, _, _) = self.hooks_end();
                self.stats.inc("fault/fsize_limit");
                if let StoreOutcome::Other(err) = &out {
                    // the engine or the file system ran out of room: the call must have changed nothing
                    self.stats.inc("fault/fsize_limit_store_failed");
                    self.log.push(format!("#{i} store {} under file size limit {limit} -> {}", short(&e.id), out.label()));
                    // the failed call may have enlarged (and moved) the map before it ran out of room
                    let grew = self.grew_since(map_len_before);
                    if let Some(f) = self.check_refs(i, grew) {
                        return Some(f);
                    }
                    let after = self.observe();
                    let diffs = common(obs::diff_all(&before, &after, &[]));
                    if !diffs.is_empty() {
                        let ctx = OpCtx { kind: CtxKind::Store, event: Some(e.clone()), desc: String::new(), also: &[] };
                        let (bi, _, mut props) = self.attribute_all(&diffs, &ctx);
                        props.retain(|p| *p != "C12");
                        props.insert(0, "C12");
                        let (k, a, b) = &diffs[bi];
                        return Some(self.finding(
                            i,
                            "failed-store-changed-state",
                            &props,
                            format!("store of {} failed with {err} (file size limit {limit}), yet probe {} changed: {} -> {} ({} probes differ)", short(&e.id), shorten_key(k), a, b, diffs.len()),
                        ));
                    }
                    self.last_obs = Some(after);
                    self.disturb("failpoint");
                    self.failed_store_since_restart = true;
                    self.last_faulted_store = Some(e.id);
                    return None;
                }
                return self.after_store(i, e, &ev, out, map_len_before, points, vec![]);
            }
        }

        // --- fail-point enumeration (C12): every fail-point occurrence of this store fails once
        let mut fail_plan: Vec<u32> = vec![];
        let enumerate = self.cfg.mode == Mode::FailEnum;
        // (k >= 1000: fail the (k - 1000)-th call and do not retry - the caller gives the event up)
        let mut abandon = false;
        if let Some(k) = self.pending_fail.take() {
            abandon = k >= 1000;
            fail_plan.push(k % 1000);
        }
        let mut k_enum: u32 = 0;
        loop {
            let fail_k = if enumerate {
                Some(k_enum)
            } else if let Some(k) = fail_plan.pop() {
                Some(k)
            } else {
                break;
            };
            if enumerate && k_enum >= 48 {
                break;
            }
            let before = self.last_obs.clone().unwrap_or_else(|| self.observe());
            self.hooks_begin(false, fail_k);
            let out = real::store_event(self.store.as_ref().unwrap(), &ev);
            let (points, _snaps, fired, _names) = self.hooks_end();
            match (&out, fired) {
                (StoreOutcome::Injected(_), Some(name)) => {
                    self.stats.inc(&format!("fault/failpoint/{name}"));
                    self.log.push(format!("#{i} store {} injected {name}", short(&e.id)));
                    if abandon && !enumerate {
                        // the failed call may have enlarged (and moved) the map before the fault
                        let grew = self.grew_since(map_len_before);
                        if let Some(f) = self.check_refs(i, grew) {
                            return Some(f);
                        }
                    }
                    let after = self.observe();
                    let diffs = common(obs::diff_all(&before, &after, &[]));
                    if !diffs.is_empty() {
                        // C12, and whatever statements the damage itself contradicts
                        let ctx = OpCtx { kind: CtxKind::Store, event: Some(e.clone()), desc: String::new(), also: &[] };
                        let (bi, _, mut props) = self.attribute_all(&diffs, &ctx);
                        props.retain(|p| *p != "C12");
                        props.insert(0, "C12");
                        let (k, a, b) = &diffs[bi];
                        return Some(self.finding(
                            i,
                            "failed-store-changed-state",
                            &props,
                            format!("store of {} failed at {name}, yet probe {} changed: {} -> {} ({} probes differ)", short(&e.id), shorten_key(k), a, b, diffs.len()),
                        ));
                    }
                    self.last_obs = Some(after);
                    self.disturb("failpoint");
                    self.failed_store_since_restart = true;
                    self.last_faulted_store = Some(e.id);
                    if abandon && !enumerate {
                        self.stats.inc("fault/failed_store_not_retried");
                        return None;
                    }
                    k_enum += 1;
                    continue;
                }
                (StoreOutcome::Panic(p), _) => {
                    return Some(self.finding(i, "store-panicked", &["C12", "C04"], format!("store of {} panicked with a fail-point armed: {p}", short(&e.id))));
                }
                (_, Some(name)) => {
                    // the fail-point fired but the call did not report the injected error: whatever it
                    // returned is judged like any other result (an `Ok` must then have its full effect)
                    self.stats.inc(&format!("fault/failpoint_not_reported/{name}"));
                    self.log.push(format!("#{i} store {} fail-point {name} fired, call returned {}", short(&e.id), out.label()));
                    self.disturb("failpoint");
                    return self.after_store(i, e, &ev, out, map_len_before, points, vec![]);
                }
                (_, None) => {
                    // no k-th fail-point call: this was the ordinary execution
                    return self.after_store(i, e, &ev, out, map_len_before, points, vec![]);
                }
            }
        }

        // --- ordinary execution (crash mode: with every kill point snapshotted)
        let crash = self.cfg.mode == Mode::Crash || self.pending_crash.is_some();
        let starve = std::mem::take(&mut self.pending_starve) && !crash;
        if starve {
            // the reader table is exhausted while this store runs
            let before = self.last_obs.clone().unwrap_or_else(|| self.observe());
            let (out, points) = {
                let store = self.store.as_ref().unwrap();
                let held = exhaust_readers(store);
                self.hooks_begin(false, None);
                let out = real::store_event(store, &ev);
                let (points, _, _, _) = self.hooks_end();
                drop(held);
                (out, points)
            };
            self.stats.inc("fault/readers_exhausted");
            if let StoreOutcome::Other(err) = &out {
                // an engine failure: the call must have changed nothing
                self.stats.inc("fault/readers_exhausted_store_failed");
                self.log.push(format!("#{i} store {} starved -> {}", short(&e.id), out.label()));
                let after = self.observe();
                let diffs = common(obs::diff_all(&before, &after, &[]));
                if let Some((k, a, b)) = diffs.first() {
                    return Some(self.finding(
                        i,
                        "failed-store-changed-state",
                        &["C12"],
                        format!("store of {} failed with {err} (reader table exhausted), yet probe {} changed: {} -> {}", short(&e.id), shorten_key(k), a, b),
                    ));
                }
                self.last_obs = Some(after);
                self.disturb("failpoint");
                self.last_faulted_store = Some(e.id);
                return None;
            }
            return self.after_store(i, e, &ev, out, map_len_before, points, vec![]);
        }
        self.hooks_begin(crash, None);
        let out = real::store_event(self.store.as_ref().unwrap(), &ev);
        let (points, snaps, _, _) = self.hooks_end();
        self.after_store(i, e, &ev, out, map_len_before, points, snaps)
    }

    #[allow(clippy::too_many_arguments)]
    fn after_store(
        &mut self,
        i: usize,
        e: &EvSpec,
        _ev: &OwnedEvent,
        out: StoreOutcome,
        map_len_before: u64,
        points: Vec<&'static str>,
        snaps: Vec<(usize, &'static str, PathBuf)>,
    ) -> Option<Finding> {
        self.stats.add("points_crossed", points.len() as u64);
        let growths = points.iter().filter(|p| **p == "es:after_resize").count();
        if growths >= 1 {
            self.stats.add("fault/growth", growths as u64);
        }
        if growths >= 2 {
            self.stats.inc("probe/growth_retry_2plus");
        }
        if points.contains(&"es:after_padding") {
            self.stats.inc("probe/padding_applied");
        }
        let expect = self.model.store_expect(e);
        self.stats.inc(&format!("store/{}", out.class()));
        self.log.push(format!("#{i} store {} k{} -> {}", short(&e.id), e.kind, out.label()));
        self.sig_mix(&format!("store:{}:{}:{}", e.kind.min(40000) / 10000, out.class(), self.model.retrievable.len()));
        let before_model = self.model.clone();
        let ctx_desc = format!("store of {} ({})", short(&e.id), out.label());
        let mut also: &'static [&'static str] = &[];

        let result: Option<Finding> = match &out {
            StoreOutcome::Panic(p) => {
                // references held across a store that blew up: are they still what they were?
                let refs = if self.refs.is_empty() { None } else { self.check_refs(i, true) };
                let mut f = self.finding(i, "store-panicked", &["C04", "C12"], format!("store_event panicked: {p}"));
                if let Some(r) = refs {
                    for p in r.props {
                        if !f.props.contains(&p) {
                            f.props.push(p);
                        }
                    }
                    f.detail.push_str(&format!("; {}: {}", r.clause, r.detail));
                }
                Some(f)
            }
            StoreOutcome::Ok(off) => {
                // refusals that the statements REQUIRE
                if expect.refusals.contains(&Refusal::Deleted) {
                    Some(self.finding(i, "deleted-event-accepted", &["C11"], format!("{} is covered by an accepted deletion but was stored again", e.brief())))
                } else if expect.refusals.contains(&Refusal::Replaced) {
                    Some(self.finding(i, "older-version-accepted", &["C09"], format!("{} is strictly older than the holder of its address but was accepted", e.brief())))
                } else {
                    if expect.refusals.contains(&Refusal::InvalidDelete) {
                        self.stats.inc("probe/foreign_request_accepted_inert");
                        also = &["C10"];
                    }
                    if expect.tie {
                        self.stats.inc("probe/tie_accepted");
                    }
                    // offsets are fresh and never overlap earlier ones of this file
                    let len = self.enc.get(&e.id).map(|x| x.as_bytes().len()).unwrap_or(0);
                    let mut clash = None;
                    for (o, (id, l)) in self.model.offsets.iter() {
                        let (a0, a1) = (*o, *o + *l as u64);
                        let (b0, b1) = (*off, *off + len as u64);
                        if a0 < b1 && b0 < a1 {
                            clash = Some((*o, *id));
                            break;
                        }
                    }
                    if *off < 8 {
                        clash = Some((0, [0u8; 32]));
                    }
                    if let Some((o, id)) = clash {
                        Some(self.finding(
                            i,
                            "offset-reused",
                            &["C04"],
                            format!("store of {} returned offset {} overlapping the region handed out at offset {} ({})", short(&e.id), off, o, short(&id)),
                        ))
                    } else {
                        if e.kind == 5 && !self.model.odd_a_ignored {
                            // which reading of an odd `a` target does the implementation take?
                            for t in e.tags.iter().filter(|t| t.len() >= 2 && t[0] == "a") {
                                if let Some(a) = parse_a_target(&t[1]) {
                                    let (na, odd) = norm_target(a);
                                    if odd && na.pk == e.pk {
                                        let before = self.model.deleted_addrs.get(&na).copied();
                                        if before.map_or(true, |b| b < e.at) {
                                            let real = self.store.as_ref().and_then(|s| s.naddr_is_deleted_asof(&real::addr_of(&na)).ok()).flatten().map(|t| t.as_u64());
                                            if real == before {
                                                // no marker where the address-naming reading puts it:
                                                // the tag was ignored - or half-applied, which the
                                                // observation below then shows
                                                self.model.odd_a_ignored = true;
                                                self.stats.inc("probe/odd_a_target_ignored");
                                            } else {
                                                self.stats.inc("probe/odd_a_target_names_the_address");
                                            }
                                        }
                                        break;
                                    }
                                }
                            }
                        }
                        let fx = self.model.apply_store(e, *off, len);
                        if e.kind != 5 && !fx.removed.is_empty() {
                            self.stats.inc("probe/displaced");
                        }
                        if !fx.marked_ids.is_empty() {
                            self.stats.inc("probe/id_marker_set");
                        }
                        if !fx.marked_addrs.is_empty() {
                            self.stats.inc("probe/addr_marker_set");
                        }
                        if e.kind == 5 && !fx.removed.is_empty() {
                            self.stats.inc("probe/deletion_removed_events");
                        }
                        None
                    }
                }
            }
            StoreOutcome::Duplicate => {
                if expect.refusals.contains(&Refusal::Duplicate) {
                    None
                } else {
                    let p: &[&'static str] = if self.model.ever_removed.contains(&e.id) { &["C18"] } else { &["C04", "C09"] };
                    Some(self.finding(i, "spurious-duplicate", p, format!("{} is not retrievable but was refused as duplicate", e.brief())))
                }
            }
            StoreOutcome::Deleted => {
                if expect.refusals.contains(&Refusal::Deleted) {
                    None
                } else {
                    // who could have put a marker there?
                    let foreign_named = self.model.events.values().any(|r| {
                        r.kind == 5
                            && r.pk != e.pk
                            && r.tags.iter().any(|t| {
                                t.len() >= 2
                                    && ((t[0] == "e" && parse_e_target(&t[1]) == Some(e.id))
                                        || (t[0] == "a" && parse_a_target(&t[1]).map(|a| Some(a) == e.addr()).unwrap_or(false)))
                            })
                    });
                    let p: &[&'static str] = if foreign_named { &["C10", "C11"] } else { &["C11", "C09"] };
                    Some(self.finding(i, "spurious-deleted", p, format!("{} is newer than every accepted deletion covering it (or never covered) but was refused as deleted", e.brief())))
                }
            }
            StoreOutcome::Replaced => {
                if expect.refusals.contains(&Refusal::Replaced) || expect.tie {
                    if expect.tie && !expect.refusals.contains(&Refusal::Replaced) {
                        self.stats.inc("probe/tie_refused");
                    }
                    None
                } else {
                    Some(self.finding(i, "spurious-replaced", &["C09"], format!("{} has no strictly newer holder at its address but was refused as replaced", e.brief())))
                }
            }
            StoreOutcome::InvalidDelete => {
                if expect.refusals.contains(&Refusal::InvalidDelete) || expect.malformed {
                    self.stats.inc("probe/invalid_delete_refused");
                    also = &["C10"];
                    None
                } else {
                    Some(self.finding(i, "spurious-invalid-delete", &["C10"], format!("{} names only the requester's own targets but was refused as an invalid delete", e.brief())))
                }
            }
            StoreOutcome::Injected(s) => Some(self.finding(i, "unexpected-injection", &[], format!("harness: injected error without an armed fail-point: {s}"))),
            StoreOutcome::Other(_) if expect.engine_refusal => {
                // the marker key of an own address named by the request is longer than the engine
                // takes: an ordinary failure, judged below like every failed store
                self.stats.inc("probe/engine_refused_oversize_marker_key");
                None
            }
            StoreOutcome::Other(s) => {
                let p: &[&'static str] = match self.disturbed {
                    Some("failpoint") => &["C12"],
                    Some("crash") => &["C13"],
                    Some("restart") => &["C16"],
                    _ => &[],
                };
                Some(self.finding(i, "store-unexpected-error", p, format!("store of {} failed with {s} although the model accepts it (after {:?})", e.brief(), self.disturbed)))
            }
        };
        if result.is_some() {
            self.cleanup_snaps(&snaps);
            return result;
        }

        // --- held references first (C15): same address, same bytes
        let grew = self.grew_since(map_len_before);
        if let Some(f) = self.check_refs(i, grew) {
            self.cleanup_snaps(&snaps);
            return Some(f);
        }

        // --- after: the full observation against the model
        let is_err = !matches!(out, StoreOutcome::Ok(_));
        if is_err {
            self.failed_store_since_restart = true;
            // a refused store changes nothing observable (C12), compared real-before vs real-after
            let before = self.last_obs.clone();
            let after = self.observe();
            if let Some(before) = before {
                let diffs = self.unmasked(common(obs::diff_all(&before, &after, &[])));
                if !diffs.is_empty() {
                    let ctx = OpCtx { kind: CtxKind::Store, event: Some(e.clone()), desc: ctx_desc.clone(), also };
                    let (bi, _, mut props) = self.attribute_all(&diffs, &ctx);
                    props.retain(|p| *p != "C12");
                    props.insert(0, "C12");
                    if matches!(out, StoreOutcome::InvalidDelete) && !props.contains(&"C10") {
                        props.push("C10");
                    }
                    if matches!(out, StoreOutcome::Replaced) && !props.contains(&"C09") {
                        props.push("C09");
                    }
                    let (k, a, b) = &diffs[bi];
                    let f = self.finding(
                        i,
                        "failed-store-changed-state",
                        &props,
                        format!("{ctx_desc} returned an error, yet probe {} changed: {} -> {} ({} probes differ)", shorten_key(k), a, b, diffs.len()),
                    );
                    let keys: Vec<String> = diffs.iter().map(|(k, _, _)| k.clone()).collect();
                    if let Some(f) = self.settle(f, keys) {
                        self.cleanup_snaps(&snaps);
                        return Some(f);
                    }
                }
            }
            self.stats.inc("probe/failed_store_state_compared");
            self.last_obs = Some(after);
            // and the state still agrees with the model
            let ctx = OpCtx { kind: CtxKind::Store, event: Some(e.clone()), desc: ctx_desc.clone(), also };
            if let Some(f) = self.model_agrees(i, &ctx) {
                self.cleanup_snaps(&snaps);
                return Some(f);
            }
        } else {
            let ctx = OpCtx { kind: CtxKind::Store, event: Some(e.clone()), desc: ctx_desc.clone(), also };
            if let Some(f) = self.check_against_model(i, &ctx) {
                self.cleanup_snaps(&snaps);
                return Some(f);
            }
        }
        if self.cfg.prop == "C15" && self.refs.len() < 48 {
            // C15 runs hold a reference to everything they store
            if let StoreOutcome::Ok(_) = out {
                if let Some(f) = self.take_ref(i, &e.id) {
                    self.cleanup_snaps(&snaps);
                    return Some(f);
                }
            }
        }
        self.install_blocker();

        // --- crash mode: every kill point of this store
        if !snaps.is_empty() {
            let after_model = self.model.clone();
            let crash_k = self.pending_crash.take();
            let resubmit = Some(e.clone());
            if let Err(f) = self.check_snapshots_and_maybe_adopt(i, "store", snaps, &before_model, &after_model, &[], resubmit, crash_k) {
                return Some(f);
            }
        } else {
            self.pending_crash = None;
        }
        None
    }

    /// `inflate`: see spec.rs. Nothing observable may change; the next offsets lie beyond `end`.
    fn do_inflate(&mut self, i: usize, end: u64) -> Option<Finding> {
        use std::os::unix::fs::FileExt;
        self.close_store();
        let path = self.dir.join("event.map");
        let done = (|| -> std::io::Result<bool> {
            let f = fs::OpenOptions::new().read(true).write(true).open(&path)?;
            let mut b = [0u8; 8];
            f.read_exact_at(&mut b, 0)?;
            let marker = u64::from_le_bytes(b);
            let end = (end + 7) / 8 * 8;
            if end <= marker {
                return Ok(false);
            }
            let len = f.metadata()?.len();
            // whole chunks, as the store itself grows the file, and little room: the next stores
            // have to grow it
            let chunk: u64 = if crate::check::release_build() { 4 * 1024 * 1024 } else { 2048 };
            let new_len = (end + chunk - 1) / chunk * chunk;
            if new_len > len {
                f.set_len(new_len)?;
            }
            f.write_all_at(&end.to_le_bytes(), 0)?;
            Ok(true)
        })();
        match done {
            Ok(true) => self.stats.inc("fault/map_inflated"),
            Ok(false) => {}
            Err(e) => return Some(self.finding(i, "inflate-failed", &[], format!("harness: inflate failed: {e}"))),
        }
        if let Err(f) = self.open_store(i) {
            return Some(f);
        }
        self.log.push(format!("#{i} inflate to {end}"));
        let ctx = OpCtx { kind: CtxKind::Restart, event: None, desc: "reopening the lengthened map".into(), also: &["C04"] };
        self.check_against_model(i, &ctx)
    }

    /// the limit an `fsize` modifier stands for, from the files as they are now
    fn fsize_limit(&self, mode: u8) -> u64 {
        let map_len = file_len(&self.dir.join("event.map"));
        let mdb_len = file_len(&self.dir.join("lmdb").join("data.mdb"));
        if mode == 8 {
            // a little beyond the used part of the map: the next event's room straddles the limit
            // (a write() of it through the file descriptor would come back short), while the
            // mapping itself can still be written
            let mut b = [0u8; 8];
            let used = fs::File::open(self.dir.join("event.map"))
                .and_then(|f| std::os::unix::fs::FileExt::read_exact_at(&f, &mut b, 0))
                .map(|_| u64::from_le_bytes(b))
                .unwrap_or(map_len);
            return used + 90;
        }
        if mode == 9 || mode == 10 {
            // room for two / three more chunks of the map: a store that needs more enlargements than
            // that fails in the middle of its growth loop
            return map_len + (mode as u64 - 7) * 2048;
        }
        match mode % 8 {
            0 => map_len,
            1 => mdb_len,
            2 => 8192,
            3 => map_len.max(mdb_len),
            // fractions of the index file: a rebuild (which writes a fresh, smaller index file in
            // several commits) then runs out of room at one of its later stages
            4 => mdb_len / 8,
            5 => mdb_len / 4,
            6 => mdb_len * 3 / 8,
            _ => mdb_len * 5 / 8,
        }
    }

    // ------------------------------------------------------------ remove / vanish

    fn do_remove(&mut self, i: usize, id: &B32) -> Option<Finding> {
        let before_model = self.model.clone();
        let crash = self.cfg.mode == Mode::Crash || self.pending_crash.is_some();
        let fail_k = self.pending_fail.take();
        let starve = std::mem::take(&mut self.pending_starve) && !crash;
        let fsize = self.pending_fsize.take().filter(|_| !crash).map(|m| self.fsize_limit(m));
        let faulted = fail_k.is_some() || starve || fsize.is_some();
        let before_obs = if faulted { Some(self.last_obs.clone().unwrap_or_else(|| self.observe())) } else { None };
        let (r, points, snaps, fired) = {
            let store = self.store.as_ref().unwrap();
            let held = if starve { exhaust_readers(store) } else { vec![] };
            self.hooks_begin(crash, fail_k);
            let r = with_fsize_limit(fsize.unwrap_or(u64::MAX), || real::catch(|| store.remove_event(pocket_types::Id::from_bytes(*id))));
            let (points, snaps, fired, _) = self.hooks_end();
            drop(held);
            (r, points, snaps, fired)
        };
        if fsize.is_some() {
            self.stats.inc("fault/fsize_limit");
        }
        if starve {
            self.stats.inc("fault/readers_exhausted");
        }
        if let Some(n) = fired {
            self.stats.inc(&format!("fault/failpoint/{n}"));
        }
        self.stats.add("points_crossed", points.len() as u64);
        let was = self.model.retrievable.contains(id);
        self.sig_mix(&format!("remove:{}:{}", was, self.model.retrievable.len()));
        match r {
            Err(p) => {
                self.cleanup_snaps(&snaps);
                return Some(self.finding(i, "remove-panicked", &["C18"], format!("remove_event panicked: {p}")));
            }
            Ok(Err(e)) => {
                self.cleanup_snaps(&snaps);
                if faulted {
                    // a removal that failed because of an injected fault must have removed nothing
                    self.log.push(format!("#{i} remove {} failed under an injected fault: {}", short(id), real::err_name(&e.inner)));
                    let after = self.observe();
                    let diffs = common(obs::diff_all(before_obs.as_ref().unwrap(), &after, &[]));
                    if let Some((k, a, b)) = diffs.first() {
                        return Some(self.finding(i, "failed-remove-changed-state", &["C18"], format!("remove_event({}) returned an error, yet probe {} changed: {} -> {}", short(id), shorten_key(k), a, b)));
                    }
                    self.last_obs = Some(after);
                    self.disturb("failpoint");
                    return None;
                }
                return Some(self.finding(i, "remove-failed", &["C18"], format!("remove_event({}) failed: {}", short(id), real::err_name(&e.inner))));
            }
            Ok(Ok(())) => {}
        }
        self.log.push(format!("#{i} remove {} (was retrievable: {was})", short(id)));
        self.stats.inc(if was { "remove/present" } else { "remove/absent" });
        let _ = self.model.apply_remove(id);
        if let Some(f) = self.check_refs(i, false) {
            self.cleanup_snaps(&snaps);
            return Some(f);
        }
        let ctx = OpCtx { kind: CtxKind::Remove, event: None, desc: format!("remove of {}", short(id)), also: &[] };
        if let Some(f) = self.check_against_model(i, &ctx) {
            self.cleanup_snaps(&snaps);
            return Some(f);
        }
        if !snaps.is_empty() {
            let after_model = self.model.clone();
            let crash_k = self.pending_crash.take();
            if let Err(f) = self.check_snapshots_and_maybe_adopt(i, "remove", snaps, &before_model, &after_model, &[], None, crash_k) {
                return Some(f);
            }
        } else {
            self.pending_crash = None;
        }
        None
    }

    fn do_vanish(&mut self, i: usize, pk: &B32) -> Option<Finding> {
        let before_model = self.model.clone();
        let targets = self.model.vanish_targets(pk);
        let ev = real::vanish_event(pk);
        let crash = self.cfg.mode == Mode::Crash || self.pending_crash.is_some();
        let fail_k = self.pending_fail.take();
        let starve = std::mem::take(&mut self.pending_starve) && !crash;
        let fsize = self.pending_fsize.take().filter(|_| !crash).map(|m| self.fsize_limit(m));
        if fsize.is_some() {
            self.stats.inc("fault/fsize_limit");
        }
        let faulted = fail_k.is_some() || starve || fsize.is_some();
        let (r, points, snaps, fired) = {
            let store = self.store.as_ref().unwrap();
            let held = if starve { exhaust_readers(store) } else { vec![] };
            self.hooks_begin(crash, fail_k);
            let r = with_fsize_limit(fsize.unwrap_or(u64::MAX), || real::catch(|| store.vanish(&ev)));
            let (points, snaps, fired, _) = self.hooks_end();
            drop(held);
            (r, points, snaps, fired)
        };
        if starve {
            self.stats.inc("fault/readers_exhausted");
        }
        if let Some(n) = fired {
            self.stats.inc(&format!("fault/failpoint/{n}"));
        }
        self.stats.add("points_crossed", points.len() as u64);
        self.sig_mix(&format!("vanish:{}:{}", targets.len(), self.model.retrievable.len()));
        match r {
            Err(p) => {
                self.cleanup_snaps(&snaps);
                return Some(self.finding(i, "vanish-panicked", &["C18"], format!("vanish panicked: {p}")));
            }
            Ok(Err(e)) => {
                self.cleanup_snaps(&snaps);
                if faulted {
                    // a vanish interrupted by an injected fault: any subset of its targets may be gone,
                    // nothing else may have changed
                    self.log.push(format!("#{i} vanish {} failed under an injected fault: {}", short(pk), real::err_name(&e.inner)));
                    self.stats.inc("fault/vanish_interrupted");
                    let store = self.store.as_ref().unwrap();
                    let mut gone = 0;
                    for t in &targets {
                        let still = store.has_event(pocket_types::Id::from_bytes(*t)).unwrap_or(true);
                        if !still {
                            let _ = self.model.retrievable.remove(t);
                            let _ = self.model.ever_removed.insert(*t);
                            gone += 1;
                        }
                    }
                    self.stats.add("vanish/targets", gone);
                    self.disturb("failpoint");
                    let ctx = OpCtx { kind: CtxKind::Remove, event: None, desc: format!("interrupted vanish of {}", short(pk)), also: &[] };
                    return self.check_against_model(i, &ctx);
                }
                return Some(self.finding(i, "vanish-failed", &["C18"], format!("vanish({}) failed: {}", short(pk), real::err_name(&e.inner))));
            }
            Ok(Ok(())) => {}
        }
        self.log.push(format!("#{i} vanish {} ({} targets)", short(pk), targets.len()));
        self.stats.add("vanish/targets", targets.len() as u64);
        if targets.iter().any(|t| self.model.events[t].kind == 1059 && self.model.events[t].pk != *pk) {
            self.stats.inc("probe/vanish_giftwrap");
        }
        let _ = self.model.apply_vanish(pk);
        if let Some(f) = self.check_refs(i, false) {
            self.cleanup_snaps(&snaps);
            return Some(f);
        }
        let ctx = OpCtx { kind: CtxKind::Remove, event: None, desc: format!("vanish of {}", short(pk)), also: &[] };
        if let Some(f) = self.check_against_model(i, &ctx) {
            self.cleanup_snaps(&snaps);
            return Some(f);
        }
        if !snaps.is_empty() {
            let after_model = self.model.clone();
            let crash_k = self.pending_crash.take();
            if let Err(f) = self.check_snapshots_and_maybe_adopt(i, "vanish", snaps, &before_model, &after_model, &targets, None, crash_k) {
                return Some(f);
            }
        } else {
            self.pending_crash = None;
        }
        None
    }

    // ------------------------------------------------------------ query

    fn do_query(&mut self, i: usize, q: &QuerySpec) -> Option<Finding> {
        let expect = self.model.query_expect(q);
        let out = real::query(self.store.as_ref().unwrap(), q);
        let label = match &out {
            QueryOutcome::Ok(ids, red) => format!("Ok({} events, redacted={red})", ids.len()),
            QueryOutcome::Scraper => "Scraper".into(),
            QueryOutcome::OtherErr(e) => format!("Err({e})"),
            QueryOutcome::Panic(p) => format!("PANIC({p})"),
        };
        self.log.push(format!("#{i} query -> {label}"));
        // reach probes, inferred from the filter shape
        let plan = if !q.ids.is_empty() {
            "ids"
        } else if !q.authors.is_empty() && !q.kinds.is_empty() {
            "author_kind"
        } else if !q.authors.is_empty() && !q.tags.is_empty() {
            "author_tag"
        } else if !q.kinds.is_empty() && !q.tags.is_empty() {
            "kind_tag"
        } else if !q.tags.is_empty() {
            "tag"
        } else if !q.authors.is_empty() {
            "author"
        } else {
            "scrape"
        };
        self.stats.inc(&format!("query/plan/{plan}"));
        if let Some(l) = q.limit {
            if (l as usize) < expect.matching.len() {
                self.stats.inc("probe/limit_cuts");
                let l = l as usize;
                if l > 0 && expect.matching[l - 1].0 == expect.matching[l].0 {
                    self.stats.inc("probe/limit_cut_inside_tie");
                }
            }
        }
        if q.tags.iter().any(|(_, vs)| vs.len() > 1) {
            self.stats.inc("probe/multi_value_tag");
        }
        if matches!(out, QueryOutcome::Scraper) {
            self.stats.inc("probe/scrape_refused");
        }
        if let (Some(now), Some(s)) = (self.model.clock, q.since) {
            if q.is_scrape() && s > now {
                self.stats.inc("probe/scrape_since_after_now");
            }
        }
        if expect.any_redacted {
            self.stats.inc("probe/redacted_present");
        }
        self.sig_mix(&format!("query:{plan}:{}:{}", expect.matching.len().min(9), q.limit.map(|l| l.min(9)).unwrap_or(99)));
        if let Some(msg) = expect.check(q, &out) {
            // besides C05: a filter of one of the shapes an event's own fields give (its id, its
            // author, author+kind, one tag value alone or with author or kind, a time window),
            // unlimited and unscreened, that misses a retrievable event or returns one that is
            // not, contradicts "every access path agrees" (C17); a removed or vanished event in an
            // answer contradicts C18
            let mut props: Vec<&'static str> = vec!["C05"];
            if let QueryOutcome::Ok(ids, _) = &out {
                let want: BTreeSet<B32> = expect.matching.iter().map(|(_, id)| *id).collect();
                let got: BTreeSet<B32> = ids.iter().copied().collect();
                let one_tag = q.tags.len() == 1 && q.tags[0].1.len() == 1;
                let dims = (!q.ids.is_empty()) as u8 + (!q.authors.is_empty()) as u8 + (!q.kinds.is_empty()) as u8 + (!q.tags.is_empty()) as u8;
                let shape = q.limit.is_none()
                    && q.mismatch_pct == 0
                    && q.redact_pct == 0
                    && (q.tags.is_empty() || one_tag)
                    && q.authors.len() <= 1
                    && q.kinds.len() <= 1
                    && (dims <= 1 || (dims == 2 && q.ids.is_empty() && !(q.tags.is_empty() && q.authors.is_empty())));
                if shape && want != got {
                    props.push("C17");
                }
                if got.difference(&want).any(|id| self.model.ever_removed.contains(id)) {
                    props.push("C18");
                }
            }
            let f = self.finding(i, "query-result", &props, format!("{}: {msg}; got {label}", q.brief()));
            // (a wrong query answer does not end a run that is about another property)
            return self.settle(f, vec![]);
        }
        None
    }

    // ------------------------------------------------------------ extra tables

    fn do_extra(&mut self, i: usize, t: u8, k: &[u8], v: Option<&Vec<u8>>) -> Option<Finding> {
        if t >= self.cfg.extra_tables {
            return None;
        }
        let store = self.store.as_ref().unwrap();
        let name = EXTRA_NAMES[t as usize];
        let r = real::catch(|| -> Result<(), String> {
            let table = store.extra_table(name).ok_or("no such table")?;
            let mut txn = store.write_txn().map_err(|e| real::err_name(&e.inner))?;
            match v {
                Some(v) => table.put(&mut txn, k, v).map_err(|e| e.to_string())?,
                None => {
                    let _ = table.delete(&mut txn, k).map_err(|e| e.to_string())?;
                }
            }
            txn.commit().map_err(|e| e.to_string())?;
            Ok(())
        });
        match r {
            Ok(Ok(())) => {}
            Ok(Err(e)) => return Some(self.finding(i, "extra-table-op-failed", &[], format!("harness: extra table op failed: {e}"))),
            Err(p) => return Some(self.finding(i, "extra-table-op-panicked", &[], format!("harness: extra table op panicked: {p}"))),
        }
        let m = self.model.extra.entry(t).or_default();
        match v {
            Some(v) => {
                let _ = m.insert(k.to_vec(), v.clone());
            }
            None => {
                let _ = m.remove(k);
            }
        }
        self.log.push(format!("#{i} extra {} {}", name, if v.is_some() { "put" } else { "del" }));
        let o = self.observe();
        self.last_obs = Some(o);
        None
    }

    // ------------------------------------------------------------ restarts

    fn next_dir(&mut self) -> PathBuf {
        self.dir_counter += 1;
        self.scratch.join(format!("d{}", self.dir_counter))
    }

    /// close, and open again with another set of extra tables: everything both configurations
    /// show must be unchanged (the rows of a table that is opened again later are compared with the
    /// model at the next step, like everything else)
    fn do_tables(&mut self, i: usize, n: u8) -> Option<Finding> {
        // (n >= 10: the first n - 10 tables, listed in reverse order)
        let reversed = n >= 10;
        let n = (n % 10).min(EXTRA_NAMES.len() as u8);
        let before = self.observe();
        self.stats.inc("fault/restart/close_new_other_tables");
        self.refs.clear();
        self.remove_blockers();
        self.close_store();
        let was = self.cfg.extra_tables;
        self.cfg.extra_tables = n;
        self.tables_reversed = reversed;
        if let Err(f) = self.open_store(i) {
            return Some(f);
        }
        self.disturb("restart");
        self.log.push(format!("#{i} tables {was} -> {n}"));
        self.sig_mix(&format!("tables:{n}"));
        let after = self.observe();
        // (count/general is the engine's own list of named tables: it grows with a new table)
        let diffs = self.unmasked(common(obs::diff_all(&before, &after, &["count/general"])));
        if !diffs.is_empty() {
            let ctx = OpCtx { kind: CtxKind::Restart, event: None, desc: format!("reopen with {n} extra tables (before: {was})"), also: &[] };
            let (bi, clause, props) = self.attribute_all(&diffs, &ctx);
            let (k, a, b) = &diffs[bi];
            return Some(self.finding(i, &format!("reopen-changed-{clause}"), &props, format!("reopen with {n} extra tables (before: {was}) changed probe {}: {} -> {}", shorten_key(k), a, b)));
        }
        // what the model knows about the tables now open (rows put while they were open earlier)
        let exp = self.expected();
        for (k, w, g) in obs::all_diffs(&exp, &after) {
            if k.starts_with("extra/") || k.starts_with("count/custom/") {
                return Some(self.finding(i, "reopen-changed-extra-table", &["C16"], format!("after reopening with {n} extra tables (before: {was}) probe {} shows {} but the rows put earlier are {}", shorten_key(&k), g, w)));
            }
        }
        self.last_obs = Some(after);
        None
    }

    fn do_reopen(&mut self, i: usize, kind: ReopenKind) -> Option<Finding> {
        let before = self.observe();
        self.stats.inc(&format!("fault/restart/{}", match kind {
            ReopenKind::Drop => "drop_new",
            ReopenKind::Close => "close_new",
            ReopenKind::Copy => "copy_open",
        }));
        self.refs.clear();
        self.remove_blockers();
        match kind {
            ReopenKind::Drop => {
                drop(self.store.take());
            }
            ReopenKind::Close => {
                self.close_store();
            }
            ReopenKind::Copy => {
                let dst = self.next_dir();
                if let Err(e) = hooks::copy_store_files(&self.dir, &dst) {
                    return Some(self.finding(i, "copy-failed", &[], format!("harness: copy failed: {e}")));
                }
                self.close_store();
                let _ = fs::remove_dir_all(&self.dir);
                self.dir = dst;
                self.backup_blocked = false;
            }
        }
        if let Err(f) = self.open_store(i) {
            return Some(f);
        }
        self.disturb("restart");
        self.log.push(format!("#{i} reopen {:?}", kind));
        self.sig_mix(&format!("reopen:{:?}", kind));
        let after = self.observe();
        let diffs = self.unmasked(obs::diff_all(&before, &after, &[]));
        if !diffs.is_empty() {
            let ctx = OpCtx { kind: CtxKind::Restart, event: None, desc: format!("reopen ({:?})", kind), also: &[] };
            let (bi, clause, mut props) = self.attribute_all(&diffs, &ctx);
            if self.failed_store_since_restart && !props.contains(&"C12") {
                // what a failed store left behind surfaced at the restart
                props.push("C12");
            }
            let (k, a, b) = &diffs[bi];
            let f = self.finding(
                i,
                &format!("reopen-changed-{clause}"),
                &props,
                format!("reopen ({:?}) changed probe {}: {} -> {}", kind, shorten_key(k), a, b),
            );
            let keys: Vec<String> = diffs.iter().map(|(k, _, _)| k.clone()).collect();
            if let Some(f) = self.settle(f, keys) {
                return Some(f);
            }
        }
        self.stats.inc("probe/readback_after_restart");
        self.failed_store_since_restart = false;
        self.last_obs = Some(after);
        // and still what the model says
        let ctx = OpCtx { kind: CtxKind::Restart, event: None, desc: format!("reopen ({:?})", kind), also: &[] };
        if let Some(f) = self.model_agrees(i, &ctx) {
            return Some(f);
        }
        self.install_blocker();
        None
    }

    /// A rebuild that ran out of room (`fsize`), or found the place of its backup taken by
    /// something it cannot remove, has consumed the store object and returned an error. No property says what the directory then holds - the previous state is in the
    /// backup files - but whatever a restarted process opens there must be a store in the sense
    /// of the properties: a sub-state of the one before (events and markers may be missing,
    /// nothing may be added or altered) in which every access path agrees and the counts add up.
    fn after_failed_rebuild(&mut self, i: usize, err: String) -> Option<Finding> {
        self.stats.inc(if self.backup_blocked { "fault/rebuild_failed_backup_path_blocked" } else { "fault/rebuild_failed_no_room" });
        self.backup_blocked = false;
        self.log.push(format!("#{i} rebuild failed: {err}"));
        // the process "restarts": the environments the failed call left open are abandoned and
        // the files are opened afresh from a copy
        let dst = self.next_dir();
        if let Err(e) = hooks::copy_store_files(&self.dir, &dst) {
            return Some(self.finding(i, "copy-failed", &[], format!("harness: copy failed: {e}")));
        }
        let _ = fs::remove_dir_all(&self.dir);
        self.dir = dst;
        let names = extra_names(self.cfg.extra_tables, self.tables_reversed);
        let d = self.dir.clone();
        match real::catch(|| Store::new(&d, names)) {
            Ok(Ok(s)) => self.store = Some(s),
            _ => {
                // not a state any property speaks about; the operator goes back to the backup
                self.stats.inc("probe/failed_rebuild_leaves_unopenable_dir");
                self.stop = true;
                return None;
            }
        }
        self.disturb("restart");
        self.failed_store_since_restart = false;
        self.model.offsets.clear();
        // adopt the sub-state: which events, markers and extra rows are still there
        let mut lost = 0u64;
        {
            let store = self.store.as_ref().unwrap();
            let ids: Vec<B32> = self.model.retrievable.iter().copied().collect();
            for id in ids {
                if !store.has_event(pocket_types::Id::from_bytes(id)).unwrap_or(true) {
                    let _ = self.model.retrievable.remove(&id);
                    lost += 1;
                }
            }
            let dels: Vec<B32> = self.model.deleted_ids.iter().copied().collect();
            for id in dels {
                if !store.event_is_deleted(pocket_types::Id::from_bytes(id)).unwrap_or(true) {
                    let _ = self.model.deleted_ids.remove(&id);
                    lost += 1;
                }
            }
            let addrs: Vec<(AddrKey, u64)> = self.model.deleted_addrs.iter().map(|(a, t)| (a.clone(), *t)).collect();
            for (a, _) in addrs {
                if let Ok(None) = store.naddr_is_deleted_asof(&real::addr_of(&a)) {
                    let _ = self.model.deleted_addrs.remove(&a);
                    lost += 1;
                }
            }
            for t in 0..self.cfg.extra_tables {
                let name = obs::EXTRA_NAMES[t as usize];
                let rows = real::catch(|| -> Option<Vec<(Vec<u8>, Vec<u8>)>> {
                    let table = store.extra_table(name)?;
                    let txn = store.read_txn().ok()?;
                    let mut rows = vec![];
                    for r in table.iter(&txn).ok()? {
                        let (k, v) = r.ok()?;
                        rows.push((k.to_vec(), v.to_vec()));
                    }
                    Some(rows)
                });
                if let Ok(Some(rows)) = rows {
                    if let Some(m) = self.model.extra.get_mut(&t) {
                        let keep: std::collections::BTreeSet<Vec<u8>> = rows.iter().filter(|(k, v)| m.get(k) == Some(v)).map(|(k, _)| k.clone()).collect();
                        if keep.len() == rows.len() {
                            // a subset of the rows that were there: adopt it
                            let before = m.len();
                            m.retain(|k, _| keep.contains(k));
                            lost += (before - m.len()) as u64;
                        }
                    }
                }
            }
        }
        self.stats.add("probe/failed_rebuild_items_missing_afterwards", lost);
        self.sig_mix("rebuild-failed");
        let ctx = OpCtx { kind: CtxKind::Restart, event: None, desc: "reopening what a rebuild that ran out of room left behind".into(), also: &["C17", "C16"] };
        self.check_against_model(i, &ctx)
    }

    fn do_rebuild(&mut self, i: usize) -> Option<Finding> {
        let before = self.observe();
        self.refs.clear();
        self.remove_blockers();
        self.stats.inc("fault/restart/rebuild");
        let store = self.store.take().unwrap();
        let fsize = self.pending_fsize.take().map(|m| self.fsize_limit(m));
        if fsize.is_some() {
            self.stats.inc("fault/fsize_limit");
        }
        let r = with_fsize_limit(fsize.unwrap_or(u64::MAX), || real::catch(|| unsafe { store.rebuild() }));
        match r {
            Err(p) => return Some(self.finding(i, "rebuild-panicked", &["C16"], format!("rebuild panicked: {p}"))),
            Ok(Err(e)) if fsize.is_some() || self.backup_blocked => return self.after_failed_rebuild(i, real::err_name(&e.inner)),
            Ok(Err(e)) => return Some(self.finding(i, "rebuild-failed", &["C16"], format!("rebuild failed: {}", real::err_name(&e.inner)))),
            Ok(Ok(s)) => {
                self.store = Some(s);
                self.backup_blocked = false;
            }
        }
        self.disturb("restart");
        self.log.push(format!("#{i} rebuild"));
        self.sig_mix("rebuild");
        // a rebuild starts a new event file: offsets of the old one mean nothing any more
        self.model.offsets.clear();
        let mut before_cmp = before.clone();
        before_cmp.retain(|k, _| !k.starts_with("off/"));

        // known finding: address markers whose d value is longer than 182 bytes are re-cut
        let long: Vec<AddrKey> = self.model.deleted_addrs.keys().filter(|a| a.d.len() > 182).cloned().collect();
        let after = self.observe();
        let mut diffs = self.unmasked(obs::diff_all(&before_cmp, &after, &["count/tc", "count/atc", "count/ktc", "count/general"]));
        if !long.is_empty() {
            let sig = "rebuild-recuts-long-d-marker";
            let affected: Vec<String> = long.iter().map(|a| format!("deladdr/{}/{}/{}", a.kind, hex(&a.pk), hex(&a.d))).collect();
            let hit: Vec<(String, String, String)> = diffs.iter().filter(|(k, _, _)| affected.contains(k)).cloned().collect();
            if !hit.is_empty() {
                if self.known_open.contains(sig) {
                    if !self.known.iter().any(|k| k.sig == sig) {
                        self.known.push(Known {
                            props: &["C16", "C11"],
                            sig,
                            detail: format!(
                                "rebuild re-cut the deletion marker of an address whose d value is {} bytes long: {} -> {}",
                                long[0].d.len(),
                                hit[0].1,
                                hit[0].2
                            ),
                        });
                    }
                    // adopt what the store now says for those addresses (and their 182-byte prefixes)
                    for a in &long {
                        let cur = self.store.as_ref().unwrap().naddr_is_deleted_asof(&real::addr_of(a)).ok().flatten();
                        match cur {
                            Some(t) => {
                                let _ = self.model.deleted_addrs.insert(a.clone(), t.as_u64());
                            }
                            None => {
                                let _ = self.model.deleted_addrs.remove(a);
                            }
                        }
                        let mut cut = a.clone();
                        cut.d.truncate(182);
                        let cur = self.store.as_ref().unwrap().naddr_is_deleted_asof(&real::addr_of(&cut)).ok().flatten();
                        if let Some(t) = cur {
                            let _ = self.model.deleted_addrs.insert(cut.clone(), t.as_u64());
                            let _ = self.model.addr_universe.insert(cut);
                        }
                    }
                    diffs.retain(|(k, _, _)| !affected.contains(k) && k != "count/deladdr");
                }
            }
        }
        if !diffs.is_empty() {
            let ctx = OpCtx { kind: CtxKind::Restart, event: None, desc: "rebuild".into(), also: &[] };
            let (bi, clause, mut props) = self.attribute_all(&diffs, &ctx);
            if self.failed_store_since_restart && !props.contains(&"C12") {
                props.push("C12");
            }
            let (k, a, b) = &diffs[bi];
            let keys: Vec<String> = diffs.iter().map(|(k, _, _)| k.clone()).collect();
            let f = self.finding(i, &format!("rebuild-changed-{clause}"), &props, format!("rebuild changed probe {}: {} -> {}", shorten_key(k), a, b));
            if let Some(f) = self.settle(f, keys) {
                return Some(f);
            }
        }
        // no bytes of unreferenced events are retained
        let sum: usize = self.model.retrievable.iter().map(|id| self.enc.get(id).map(|e| e.as_bytes().len()).unwrap_or(0)).sum();
        let n = self.model.retrievable.len();
        match self.store.as_ref().unwrap().stats() {
            Ok(st) => {
                let eb = st.event_bytes;
                if eb < 8 + sum || eb > 8 + sum + 7 * n {
                    return Some(self.finding(
                        i,
                        "rebuild-event-space",
                        &["C16"],
                        format!("after rebuild the event space is {eb} bytes; the {n} retrievable events need {}..={}", 8 + sum, 8 + sum + 7 * n),
                    ));
                }
            }
            Err(e) => return Some(self.finding(i, "stats-failed", &["C16"], format!("stats failed after rebuild: {}", real::err_name(&e.inner)))),
        }
        // the previous files are left behind as a backup, and they still hold the old state
        let ebak = self.dir.join("event.map.bak");
        let lbak = self.dir.join("lmdb.bak");
        if !ebak.is_file() || !lbak.join("data.mdb").is_file() {
            return Some(self.finding(i, "rebuild-no-backup", &["C16"], "after rebuild event.map.bak / lmdb.bak are missing".into()));
        }
        let chk = self.next_dir();
        let copied = (|| -> std::io::Result<()> {
            fs::create_dir_all(chk.join("lmdb"))?;
            let _ = fs::copy(&ebak, chk.join("event.map"))?;
            let _ = fs::copy(lbak.join("data.mdb"), chk.join("lmdb").join("data.mdb"))?;
            Ok(())
        })();
        if copied.is_ok() {
            let names = extra_names(self.cfg.extra_tables, self.tables_reversed);
            match real::catch(|| Store::new(&chk, names)) {
                Ok(Ok(bs)) => {
                    // the backup's offsets are the pre-rebuild offsets
                    let mut m = self.model.clone();
                    m.offsets.clear();
                    let o = obs::observe_real(&bs, &m, &self.obs_opts(), self.cfg.extra_tables);
                    let _ = real::catch(|| bs.verif_close());
                    let d = obs::diff_all(&before_cmp, &o, &["count/general"]);
                    // (known finding adoption may have changed the address universe; compare common probes only)
                    let d: Vec<_> = d.into_iter().filter(|(_, a, b)| a != "<missing>" && b != "<missing>").collect();
                    if let Some((k, a, b)) = d.first() {
                        let _ = fs::remove_dir_all(&chk);
                        return Some(self.finding(i, "rebuild-backup-differs", &["C16"], format!("the backup left by rebuild does not hold the previous state: probe {} {} -> {}", shorten_key(k), a, b)));
                    }
                    self.stats.inc("probe/rebuild_backup_opened");
                }
                Ok(Err(e)) => {
                    let _ = fs::remove_dir_all(&chk);
                    return Some(self.finding(i, "rebuild-backup-unusable", &["C16"], format!("the backup left by rebuild does not open: {}", real::err_name(&e.inner))));
                }
                Err(p) => {
                    let _ = fs::remove_dir_all(&chk);
                    return Some(self.finding(i, "rebuild-backup-unusable", &["C16"], format!("opening the backup left by rebuild panicked: {p}")));
                }
            }
        }
        let _ = fs::remove_dir_all(&chk);
        self.last_obs = Some(after);
        self.failed_store_since_restart = false;
        let ctx = OpCtx { kind: CtxKind::Restart, event: None, desc: "rebuild".into(), also: &[] };
        self.model_agrees(i, &ctx)
    }

    // ------------------------------------------------------------ crash engine

    /// Check every snapshot taken while op `i` ran: the directory must reopen, show either the
    /// state before or the state after the op (vanish: any subset of its targets gone), keep
    /// every acknowledged offset readable, and behave normally afterwards.
    #[allow(clippy::too_many_arguments)]
    fn check_snapshots(
        &mut self,
        i: usize,
        what: &str,
        snaps: Vec<(usize, &'static str, PathBuf)>,
        before: &Model,
        after: &Model,
        vanish_targets: &[B32],
        resubmit: Option<&EvSpec>,
    ) -> Result<(), Finding> {
        let all: Vec<PathBuf> = snaps.iter().map(|(_, _, d)| d.clone()).collect();
        let mut res = Ok(());
        for (idx, name, dir) in &snaps {
            if res.is_ok() {
                self.stats.inc(&format!("fault/kill/{name}"));
                self.stats.inc("fault/kill_points_checked");
                if let Err(f) = self.check_one_snapshot(i, what, *idx, name, dir, before, after, vanish_targets, resubmit, false).map(|_| ()) {
                    res = Err(f);
                }
            }
        }
        for d in all {
            let _ = fs::remove_dir_all(d);
        }
        res
    }

    #[allow(clippy::too_many_arguments)]
    fn check_snapshots_and_maybe_adopt(
        &mut self,
        i: usize,
        what: &str,
        snaps: Vec<(usize, &'static str, PathBuf)>,
        before: &Model,
        after: &Model,
        vanish_targets: &[B32],
        resubmit: Option<EvSpec>,
        crash_k: Option<u32>,
    ) -> Result<(), Finding> {
        let n = snaps.len();
        let chosen = crash_k.map(|k| (k as usize) % n.max(1));
        let mut adopt: Option<(PathBuf, Model)> = None;
        let mut res = Ok(());
        for (j, (idx, name, dir)) in snaps.iter().enumerate() {
            if res.is_err() {
                break;
            }
            self.stats.inc(&format!("fault/kill/{name}"));
            self.stats.inc("fault/kill_points_checked");
            let keep = chosen == Some(j);
            match self.check_one_snapshot(i, what, *idx, name, dir, before, after, vanish_targets, resubmit.as_ref(), keep) {
                Err(f) => res = Err(f),
                Ok(m) => {
                    if keep {
                        adopt = m.map(|m| (dir.clone(), m));
                    }
                }
            }
        }
        for (_, _, d) in &snaps {
            if adopt.as_ref().map(|(a, _)| a == d).unwrap_or(false) {
                continue;
            }
            let _ = fs::remove_dir_all(d);
        }
        res?;
        if let Some((dir, m)) = adopt {
            // the main line continues from the durable state of the kill
            self.close_store();
            let _ = fs::remove_dir_all(&self.dir);
            self.dir = dir;
            self.backup_blocked = false;
            self.model = m;
            self.stats.inc("fault/crash_adopted");
            self.disturb("crash");
            self.log.push(format!("#{i} continue from kill point {}", chosen.unwrap()));
            // plain open (its own kill points were exercised by reopen ops)
            let names = extra_names(self.cfg.extra_tables, self.tables_reversed);
            let d = self.dir.clone();
            match real::catch(|| Store::new(&d, names)) {
                Ok(Ok(s)) => self.store = Some(s),
                Ok(Err(e)) => return Err(self.finding(i, "crash-reopen-failed", &["C13"], format!("reopen after kill failed: {}", real::err_name(&e.inner)))),
                Err(p) => return Err(self.finding(i, "crash-reopen-panicked", &["C13"], format!("reopen after kill panicked: {p}"))),
            }
            let o = self.observe();
            self.last_obs = Some(o);
        }
        Ok(())
    }

    /// Returns the model adopted for the snapshot when `keep` (the snapshot is then left
    /// untouched by the continuation: the continuation runs on a copy).
    #[allow(clippy::too_many_arguments)]
    fn check_one_snapshot(
        &mut self,
        i: usize,
        what: &str,
        idx: usize,
        name: &str,
        dir: &Path,
        before: &Model,
        after: &Model,
        vanish_targets: &[B32],
        resubmit: Option<&EvSpec>,
        keep: bool,
    ) -> Result<Option<Model>, Finding> {
        let here = format!("kill during {what} (op {i}) at point #{idx} {name}");
        // when the snapshot is to be kept as the new main line, work on a copy
        let work: PathBuf = if keep {
            let w = self.next_dir();
            hooks::copy_store_files(dir, &w).map_err(|e| self.finding(i, "copy-failed", &[], format!("harness: {e}")))?;
            w
        } else {
            dir.to_path_buf()
        };
        let names = extra_names(self.cfg.extra_tables, self.tables_reversed);
        let w2 = work.clone();
        let snap = match real::catch(|| Store::new(&w2, names)) {
            Ok(Ok(s)) => s,
            Ok(Err(e)) => {
                let _ = fs::remove_dir_all(&work);
                return Err(self.finding(i, "crash-reopen-failed", &["C13"], format!("{here}: reopening the directory failed: {}", real::err_name(&e.inner))));
            }
            Err(p) => {
                let _ = fs::remove_dir_all(&work);
                return Err(self.finding(i, "crash-reopen-panicked", &["C13"], format!("{here}: reopening the directory panicked: {p}")));
            }
        };
        let opts = ObsOpts { battery: self.cfg.obs_level >= 1, extra: true, offsets: true };
        let enc = &self.enc;
        let f = |id: &B32| enc.get(id).map(|e| e.as_bytes().to_vec());
        // universe for probing = the after-model's (a superset of the before-model's)
        let real_obs = obs::observe_real(&snap, after, &opts, self.cfg.extra_tables);
        let exp_after = obs::observe_model(after, &f, &opts, self.cfg.extra_tables);
        // expected-before over the same universe: offsets of the before model only
        let mut before_u = before.clone();
        before_u.events = after.events.clone();
        before_u.named_ids = after.named_ids.clone();
        before_u.addr_universe = after.addr_universe.clone();
        let exp_before = obs::observe_model(&before_u, &f, &opts, self.cfg.extra_tables);

        let d_after = obs::first_diff(&exp_after, &real_obs).map(|(k, w, g)| (k.to_string(), w.to_string(), g.to_string()));
        let d_before = obs::first_diff(&exp_before, &real_obs).map(|(k, w, g)| (k.to_string(), w.to_string(), g.to_string()));
        let mut adopted: Option<Model> = None;
        if d_before.is_none() {
            self.stats.inc("crash/state_before");
            adopted = Some(before_u.clone());
        } else if d_after.is_none() {
            self.stats.inc("crash/state_after");
            adopted = Some(after.clone());
        } else if !vanish_targets.is_empty() {
            // vanish: a subset of the targets may be gone; find which from the snapshot itself
            let mut m = before_u.clone();
            for t in vanish_targets {
                let gone = real_obs.get(&format!("has/{}", hex(t))).map(|v| v == "false").unwrap_or(false);
                if gone {
                    let _ = m.retrievable.remove(t);
                    let _ = m.ever_removed.insert(*t);
                }
            }
            let exp = obs::observe_model(&m, &f, &opts, self.cfg.extra_tables);
            if obs::first_diff(&exp, &real_obs).is_none() {
                self.stats.inc("crash/state_vanish_subset");
                adopted = Some(m);
            }
        }
        let adopted = match adopted {
            Some(m) => m,
            None => {
                let _ = real::catch(|| snap.verif_close());
                let _ = fs::remove_dir_all(&work);
                let (kb, wb, gb) = d_before.unwrap();
                let (ka, wa, ga) = d_after.unwrap();
                return Err(self.finding(
                    i,
                    "crash-state-neither-before-nor-after",
                    &["C13"],
                    format!(
                        "{here}: the reopened store is neither the state before the call (probe {} shows {}, before-state requires {}) nor the state after it (probe {} shows {}, after-state requires {})",
                        shorten_key(&kb), gb, wb, shorten_key(&ka), ga, wa
                    ),
                ));
            }
        };
        // continuation: the store behaves like one that was never interrupted
        let mut m = adopted.clone();
        self.fresh_counter += 1;
        let fresh = fresh_event(i as u64, idx as u64, self.fresh_counter);
        let fresh_enc = real::encode(&fresh);
        let mut cont: Vec<(EvSpec, OwnedEvent)> = vec![(fresh, fresh_enc)];
        if let Some(e) = resubmit {
            if let Some(x) = self.enc.get(&e.id) {
                cont.push((e.clone(), x.clone()));
                if x.as_bytes().len() >= 2000 {
                    // the interrupted event spans a growth step or more: one more event of that
                    // size, so that the recovered store also has to grow past whatever room the
                    // interrupted growth left behind
                    self.fresh_counter += 1;
                    let mut big = fresh_event(i as u64, idx as u64, self.fresh_counter);
                    big.content = e.content.clone();
                    let big_enc = real::encode(&big);
                    cont.push((big, big_enc));
                }
            }
        }
        let mut extra_enc: BTreeMap<B32, Vec<u8>> = BTreeMap::new();
        let mut err: Option<Finding> = None;
        for (spec, encd) in &cont {
            let expect = m.store_expect(spec);
            let out = real::store_event(&snap, encd);
            let ok = match &out {
                StoreOutcome::Ok(off) => {
                    if expect.refusals.contains(&Refusal::Deleted) || expect.refusals.contains(&Refusal::Replaced) {
                        false
                    } else {
                        // freshness of the offset against everything acknowledged before the kill
                        let len = encd.as_bytes().len() as u64;
                        let clash = m.offsets.iter().any(|(o, (_, l))| *o < off + len && *off < *o + *l as u64) || *off < 8;
                        if clash {
                            err = Some(self.finding(
                                i,
                                "crash-offset-reused",
                                &["C13", "C04"],
                                format!("{here}: a store after recovery was given offset {off}, overlapping an offset acknowledged before the kill"),
                            ));
                            break;
                        }
                        m.note_event(spec);
                        let _ = m.apply_store(spec, *off, encd.as_bytes().len());
                        let _ = extra_enc.insert(spec.id, encd.as_bytes().to_vec());
                        true
                    }
                }
                StoreOutcome::Duplicate => expect.refusals.contains(&Refusal::Duplicate),
                StoreOutcome::Deleted => expect.refusals.contains(&Refusal::Deleted),
                StoreOutcome::Replaced => expect.refusals.contains(&Refusal::Replaced) || expect.tie,
                StoreOutcome::InvalidDelete => expect.refusals.contains(&Refusal::InvalidDelete) || expect.malformed,
                StoreOutcome::Other(_) => expect.engine_refusal,
                _ => false,
            };
            if !ok {
                err = Some(self.finding(
                    i,
                    "crash-continuation-diverges",
                    &["C13"],
                    format!(
                        "{here}: after recovery, store of {} returned {} but a never-interrupted store in that state allows {:?}",
                        spec.brief(),
                        out.label(),
                        if expect.must_fail() { format!("{:?}", expect.refusals) } else { "Ok".to_string() }
                    ),
                ));
                break;
            }
        }
        if err.is_none() {
            let enc = &self.enc;
            let f2 = |id: &B32| extra_enc.get(id).cloned().or_else(|| enc.get(id).map(|e| e.as_bytes().to_vec()));
            let real2 = obs::observe_real(&snap, &m, &opts, self.cfg.extra_tables);
            let exp2 = obs::observe_model(&m, &f2, &opts, self.cfg.extra_tables);
            if let Some((k, w, g)) = obs::first_diff(&exp2, &real2) {
                err = Some(self.finding(
                    i,
                    "crash-continuation-diverges",
                    &["C13"],
                    format!("{here}: after recovery and one more store, probe {} shows {} but the model requires {}", shorten_key(k), g, w),
                ));
            } else {
                self.stats.inc("crash/continuations_ok");
            }
        }
        let _ = real::catch(|| snap.verif_close());
        if keep {
            let _ = fs::remove_dir_all(&work);
        }
        match err {
            Some(f) => Err(f),
            None => Ok(if keep { Some(adopted) } else { None }),
        }
    }
}

/// Take every free slot of LMDB's reader table by opening read transactions through the
/// public API; they are released when the returned vector is dropped.
fn exhaust_readers(store: &Store) -> Vec<pocket_db::heed::RoTxn<'_>> {
    let mut held = vec![];
    while held.len() < 4096 {
        match store.read_txn() {
            Ok(t) => held.push(t),
            Err(_) => break,
        }
    }
    held
}

/// Run `f` with the soft RLIMIT_FSIZE of this process at `limit` (u64::MAX: leave it alone).
/// SIGXFSZ is ignored process-wide (main.rs), so that the refused ftruncate / write returns
/// EFBIG instead of killing the process. Nothing but the call under test writes files meanwhile.
pub fn with_fsize_limit<T>(limit: u64, f: impl FnOnce() -> T) -> T {
    if limit == u64::MAX {
        return f();
    }
    let mut old = libc::rlimit { rlim_cur: 0, rlim_max: 0 };
    unsafe {
        let _ = libc::getrlimit(libc::RLIMIT_FSIZE, &mut old);
        let new = libc::rlimit { rlim_cur: limit.min(old.rlim_max), rlim_max: old.rlim_max };
        let _ = libc::setrlimit(libc::RLIMIT_FSIZE, &new);
    }
    let r = f();
    unsafe {
        let _ = libc::setrlimit(libc::RLIMIT_FSIZE, &old);
    }
    r
}

fn fresh_event(a: u64, b: u64, c: u64) -> EvSpec {
    let mut id = [0u8; 32];
    let mut st = a.wrapping_mul(0x9E37_79B9_7F4A_7C15) ^ b.rotate_left(21) ^ c.rotate_left(42) ^ 0xF5E5;
    for ch in id.chunks_mut(8) {
        ch.copy_from_slice(&crate::rng::splitmix64(&mut st).to_le_bytes());
    }
    id[0] = 0xF5; // recognisable in logs
    let mut pk = [0xEEu8; 32];
    pk[31] = 1;
    EvSpec { id, pk, kind: 1, at: 1_000_000 + c, tags: vec![vec!["t".into(), "after-recovery".into()]], content: b"continuation".to_vec() }
}

#[derive(Clone, Copy, PartialEq, Eq, Debug)]
pub enum CtxKind {
    Store,
    Remove,
    Restart,
    Other,
}

pub struct OpCtx {
    pub kind: CtxKind,
    pub event: Option<EvSpec>,
    pub desc: String,
    pub also: &'static [&'static str],
}

/// keep only probes that exist on both sides (a failed store's own id is probed only afterwards,
/// where the model then pins it to "not retrievable")
fn common(d: Vec<(String, String, String)>) -> Vec<(String, String, String)> {
    d.into_iter().filter(|(_, a, b)| a != "<missing>" && b != "<missing>").collect()
}

pub fn hash_obs(o: &Obs) -> u64 {
    let mut h: u64 = 0xcbf2_9ce4_8422_2325;
    for (k, v) in o {
        h ^= fnv1a(k.as_bytes());
        h = h.wrapping_mul(0x0000_0100_0000_01B3);
        h ^= fnv1a(v.as_bytes());
        h = h.wrapping_mul(0x0000_0100_0000_01B3);
    }
    h
}

pub fn shorten_key(k: &str) -> String {
    // long hex runs are shortened for readability
    if let Some(rest) = k.strip_prefix("bat/") {
        // battery probes are keyed by the full filter text; show the readable form
        if let Ok(Op::Query(q)) = Op::from_text(&format!("query {rest}")) {
            return format!("bat/{}", q.brief());
        }
    }
    k.split('/')
        .map(|p| if p.len() > 24 && p.bytes().all(|c| c.is_ascii_hexdigit()) { format!("{}..", &p[..12]) } else { p.to_string() })
        .collect::<Vec<_>>()
        .join("/")
}
