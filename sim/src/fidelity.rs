//! Fidelity probe for the snapshot-crash stub: the same trace is run (a) in a forked child
//! that really SIGKILLs itself at global hook point K and (b) in this process, which copies
//! the store files at the same point K. The directory the dead child leaves behind and the
//! copy must open to the same observation (and hold the same event.map bytes).

use crate::exec::Sim;
use crate::model::Model;
use crate::obs::{self, ObsOpts, EXTRA_NAMES};
use crate::rng::{run_seed, splitmix64};
use crate::runner::scratch_root;
use crate::spec::*;
use pocket_db::Store;
use std::collections::BTreeSet;
use std::path::Path;

pub struct FidelityReport {
    pub attempted: u64,
    pub compared: u64,
    pub mismatches: Vec<String>,
    pub event_map_identical: u64,
    pub by_point: std::collections::BTreeMap<String, u64>,
}

fn observe_dir(dir: &Path, universe: &Model, n_extra: u8) -> Result<obs::Obs, String> {
    let names: Vec<&'static str> = EXTRA_NAMES[..n_extra as usize].to_vec();
    let d = dir.to_path_buf();
    let store = match crate::real::catch(|| Store::new(&d, names)) {
        Ok(Ok(s)) => s,
        Ok(Err(e)) => return Err(format!("open failed: {}", crate::real::err_name(&e.inner))),
        Err(p) => return Err(format!("open panicked: {p}")),
    };
    let o = obs::observe_real(&store, universe, &ObsOpts { battery: true, extra: true, offsets: false }, n_extra);
    let _ = crate::real::catch(|| store.verif_close());
    Ok(o)
}

pub fn run_fidelity(seed: u64, runs: u64) -> FidelityReport {
    let mut rep = FidelityReport { attempted: 0, compared: 0, mismatches: vec![], event_map_identical: 0, by_point: Default::default() };
    let known: BTreeSet<String> = BTreeSet::new();
    for i in 0..runs {
        let rs = run_seed(seed, "pocket-sim/fidelity", i);
        let mut trace = crate::gen::generate("C13", rs);
        trace.ops.retain(|o| !o.is_modifier());
        trace.cfg.mode = Mode::Seq;
        trace.cfg.obs_level = 0;
        let root = scratch_root();
        // 1. dry run: how many points does the trace cross?
        let dry = Sim::new(trace.cfg.clone(), root.join(format!("fid-dry-{i}")), known.clone());
        let hooks = dry.hooks_arc();
        let r = dry.run(&trace.ops);
        if r.finding.is_some() {
            continue;
        }
        let total = hooks.st.lock().unwrap().global_points;
        if total == 0 {
            continue;
        }
        let mut st = rs ^ 0xF1DE;
        let k = splitmix64(&mut st) % total;
        rep.attempted += 1;
        // 2. the child: same trace, real SIGKILL at point k
        let child_dir = root.join(format!("fid-child-{i}"));
        let _ = std::fs::remove_dir_all(&child_dir);
        let pid = unsafe { libc::fork() };
        if pid == 0 {
            let sim = Sim::new(trace.cfg.clone(), child_dir.clone(), known.clone());
            sim.configure_fidelity(Some(k), None, Default::default());
            let _ = sim.run_no_cleanup(&trace.ops);
            // not killed: the trace diverged in the child
            unsafe { libc::_exit(42) };
        }
        let mut status: libc::c_int = 0;
        unsafe {
            let _ = libc::waitpid(pid, &mut status, 0);
        }
        let killed = libc::WIFSIGNALED(status) && libc::WTERMSIG(status) == libc::SIGKILL;
        if !killed {
            rep.mismatches.push(format!("run {i} (seed {rs}): the child was not killed at point {k} of {total} (status {status})"));
            let _ = std::fs::remove_dir_all(&child_dir);
            continue;
        }
        // 3. this process: same trace, byte copy at point k
        let snap_dir = root.join(format!("fid-snap-{i}"));
        let _ = std::fs::remove_dir_all(&snap_dir);
        let parent_scratch = root.join(format!("fid-parent-{i}"));
        let sim = Sim::new(trace.cfg.clone(), parent_scratch.clone(), known.clone());
        sim.configure_fidelity(None, Some(k), snap_dir.clone());
        let hooks = sim.hooks_arc();
        let _ = sim.run(&trace.ops);
        let taken = hooks.st.lock().unwrap().fid_taken.clone();
        let (src, pname) = match taken {
            Some(x) => x,
            None => {
                rep.mismatches.push(format!("run {i}: no snapshot taken at point {k}"));
                continue;
            }
        };
        // the child's store directory at that instant has the same name under its own scratch
        let rel = src.strip_prefix(&parent_scratch).unwrap_or(Path::new("d0")).to_path_buf();
        let child_store_dir = child_dir.join(rel);
        // universe: every event / id / address the trace mentions
        let mut uni = Model::default();
        for op in &trace.ops {
            match op {
                Op::Store(e) => uni.note_event(e),
                Op::Remove(id) => {
                    let _ = uni.named_ids.insert(*id);
                }
                _ => {}
            }
        }
        let same_map = std::fs::read(child_store_dir.join("event.map")).ok() == std::fs::read(snap_dir.join("event.map")).ok();
        if same_map {
            rep.event_map_identical += 1;
        }
        let a = observe_dir(&child_store_dir, &uni, trace.cfg.extra_tables);
        let b = observe_dir(&snap_dir, &uni, trace.cfg.extra_tables);
        match (a, b) {
            (Ok(a), Ok(b)) => {
                rep.compared += 1;
                *rep.by_point.entry(pname.to_string()).or_insert(0) += 1;
                let d = obs::diff_all(&a, &b, &[]);
                if let Some((key, x, y)) = d.first() {
                    rep.mismatches.push(format!("run {i} (seed {rs}) point {k} {pname}: killed child shows {x}, snapshot shows {y} for probe {key}"));
                } else if !same_map {
                    rep.mismatches.push(format!("run {i} (seed {rs}) point {k} {pname}: event.map bytes differ between the killed child and the snapshot"));
                }
            }
            (a, b) => rep.mismatches.push(format!("run {i} (seed {rs}) point {k} {pname}: child dir: {:?}; snapshot: {:?}", a.err(), b.err())),
        }
        let _ = std::fs::remove_dir_all(&child_dir);
        let _ = std::fs::remove_dir_all(&snap_dir);
    }
    rep
}

// ------------------------------------------------------------------------------------------
// Probe for the lock model of the concurrent mode: with REAL threads and the REAL std RwLock
// inside (the vendored) mmap-append, park a reader between the two read locks of
// `Deref::deref`, let a second thread call `resize` (which queues for the write lock), release
// the reader: if neither thread finishes within the time-out the recursive read really
// dead-locks on this platform, as the controller's model says. The process cannot recover
// from that, so the probe runs in its own process and reports through its exit code.

static PROBE_STAGE: std::sync::atomic::AtomicUsize = std::sync::atomic::AtomicUsize::new(0);
thread_local! {
    static PROBE_ROLE: std::cell::Cell<u8> = const { std::cell::Cell::new(0) };
}

fn probe_hook(name: &'static str) {
    use std::sync::atomic::Ordering::SeqCst;
    let role = PROBE_ROLE.with(|r| r.get());
    if role == 1 && name == "mmap:deref_between_reads" {
        // reader: holds the read lock; tell the writer to go, wait until it is queued
        PROBE_STAGE.store(1, SeqCst);
        while PROBE_STAGE.load(SeqCst) < 2 {
            std::thread::sleep(std::time::Duration::from_millis(1));
        }
        // give the writer time to really block inside write()
        std::thread::sleep(std::time::Duration::from_millis(300));
    }
    if role == 2 && name == "mmap:resize_before_write" {
        PROBE_STAGE.store(2, SeqCst);
    }
}

/// exit code 0: both threads finished (no dead-lock on this platform); 7: dead-lock confirmed
pub fn lock_model_probe() -> i32 {
    use std::sync::atomic::Ordering::SeqCst;
    let dir = scratch_root().join("lockprobe");
    let _ = std::fs::create_dir_all(&dir);
    let path = dir.join("map");
    let file = std::fs::OpenOptions::new().read(true).write(true).create(true).truncate(true).open(&path).unwrap();
    file.set_len(4096).unwrap();
    let map = std::sync::Arc::new(unsafe { mmap_append::MmapAppend::new(&file, true).unwrap() });
    mmap_append::verif_set_hook(Some(probe_hook));
    let done = std::sync::Arc::new(std::sync::atomic::AtomicUsize::new(0));
    let (m1, d1) = (map.clone(), done.clone());
    let _reader = std::thread::spawn(move || {
        PROBE_ROLE.with(|r| r.set(1));
        let n = m1.len(); // Deref
        let _ = n;
        let _ = d1.fetch_add(1, SeqCst);
    });
    let (m2, d2) = (map.clone(), done.clone());
    let _writer = std::thread::spawn(move || {
        PROBE_ROLE.with(|r| r.set(2));
        while PROBE_STAGE.load(SeqCst) < 1 {
            std::thread::sleep(std::time::Duration::from_millis(1));
        }
        let _ = m2.resize(8192);
        let _ = d2.fetch_add(1, SeqCst);
    });
    let t0 = std::time::Instant::now();
    while t0.elapsed() < std::time::Duration::from_secs(3) {
        if done.load(SeqCst) == 2 {
            let _ = std::fs::remove_dir_all(&dir);
            return 0;
        }
        std::thread::sleep(std::time::Duration::from_millis(10));
    }
    let _ = std::fs::remove_dir_all(&dir);
    7
}
