//! Seeded, model-driven generation of traces. Everything is drawn from one xoshiro stream
//! initialised from the run seed; the generator keeps its own copy of the reference model so
//! that generated ops are meaningful (resubmissions, targets, limits around the match count),
//! but the trace it emits is fully explicit.

use crate::model::*;
use crate::rng::Rng;
use crate::spec::*;

pub const T0: u64 = 1_700_000_000;

/// thorough tier: longer histories, more threads and ops per thread
pub static THOROUGH: std::sync::atomic::AtomicBool = std::sync::atomic::AtomicBool::new(false);
pub fn thorough() -> bool {
    THOROUGH.load(std::sync::atomic::Ordering::Relaxed)
}

#[derive(Clone, Debug)]
pub struct Profile {
    pub prop: &'static str,
    pub mode: Mode,
    pub min_ops: usize,
    pub max_ops: usize,
    /// weights, see `OPK`
    pub w: [u32; 18],
    /// probability (percent) that the blocker is on
    pub blocker_pct: u64,
    pub obs_level: u8,
    /// weights of event kind classes: regular, replaceable, param, ephemeral, giftwrap, any-u16
    pub kind_w: [u32; 6],
    /// weights of content size classes: 0, small, ~350, ~2100, ~6000
    pub size_w: [u32; 5],
    /// add a drain phase (remove every retrievable event) at the end
    pub drain_pct: u64,
    /// max number of authors
    pub authors: usize,
    /// queries per query burst
    pub query_burst: (usize, usize),
    /// extra tables 0..=n
    pub max_extra: u8,
    /// long / odd d and tag values
    pub odd_values_pct: u64,
}

// indexes into Profile::w
pub const OPK: [&str; 18] = [
    "store_new", "new_version", "resubmit", "deletion", "remove", "vanish", "query", "reopen_drop", "reopen_close",
    "reopen_copy", "rebuild", "extra_put", "extra_del", "clock", "take_ref", "fail", "crash", "starve",
];

pub fn profile(prop: &str) -> Profile {
    let base = Profile {
        prop: "C04",
        mode: Mode::Seq,
        min_ops: 12,
        max_ops: 36,
        //  new ver res del rem van qry rdr rcl rcp rbd xpt xdl clk ref fail crash
        w: [30, 12, 8, 8, 6, 2, 6, 2, 2, 2, 1, 2, 1, 1, 0, 0, 0, 0],
        blocker_pct: 50,
        obs_level: 0,
        kind_w: [40, 20, 20, 6, 6, 8],
        size_w: [10, 50, 25, 10, 5],
        drain_pct: 0,
        authors: 3,
        query_burst: (1, 3),
        max_extra: 2,
        odd_values_pct: 25,
    };
    match prop {
        "C04" => Profile {
            prop: "C04",
            w: [44, 8, 6, 6, 6, 1, 2, 3, 3, 3, 1, 1, 0, 0, 0, 3, 2, 1],
            size_w: [8, 30, 32, 20, 10],
            drain_pct: 5,
            ..base
        },
        "C05" => Profile {
            prop: "C05",
            min_ops: 30,
            max_ops: 90,
            w: [20, 6, 2, 4, 3, 1, 60, 1, 1, 1, 0, 0, 0, 4, 0, 1, 0, 1],
            size_w: [20, 70, 10, 0, 0],
            query_burst: (4, 14),
            blocker_pct: 10,
            ..base
        },
        "C09" => Profile {
            prop: "C09",
            w: [14, 40, 14, 8, 5, 1, 5, 1, 1, 1, 2, 0, 0, 0, 0, 4, 0, 3],
            kind_w: [10, 35, 40, 3, 2, 10],
            size_w: [30, 65, 5, 0, 0],
            obs_level: 1,
            authors: 2,
            odd_values_pct: 45,
            ..base
        },
        "C10" => Profile {
            prop: "C10",
            w: [28, 12, 6, 34, 3, 1, 3, 1, 1, 1, 0, 0, 0, 0, 0, 3, 0, 4],
            kind_w: [35, 30, 30, 2, 8, 2],
            size_w: [30, 65, 5, 0, 0],
            obs_level: 1,
            ..base
        },
        "C11" => Profile {
            prop: "C11",
            w: [18, 16, 16, 30, 3, 1, 2, 2, 2, 2, 3, 0, 0, 1, 0, 3, 0, 4],
            kind_w: [30, 30, 35, 2, 1, 2],
            size_w: [30, 65, 5, 0, 0],
            obs_level: 1,
            odd_values_pct: 35,
            ..base
        },
        "C12" => Profile {
            prop: "C12",
            mode: Mode::FailEnum,
            min_ops: 8,
            max_ops: 22,
            w: [26, 16, 14, 24, 4, 1, 0, 1, 1, 1, 2, 2, 0, 0, 0, 3, 0, 0],
            size_w: [10, 45, 25, 15, 5],
            obs_level: 1,
            ..base
        },
        "C13" => Profile {
            prop: "C13",
            mode: Mode::Crash,
            min_ops: 5,
            max_ops: 14,
            w: [34, 12, 6, 12, 8, 5, 0, 2, 3, 1, 0, 1, 0, 0, 0, 4, 8, 0],
            size_w: [10, 40, 30, 15, 5],
            obs_level: 1,
            blocker_pct: 20,
            ..base
        },
        "C15" => Profile {
            prop: "C15",
            w: [50, 6, 4, 4, 4, 1, 2, 1, 1, 1, 1, 0, 0, 0, 22, 2, 2, 0],
            size_w: [5, 30, 35, 20, 10],
            blocker_pct: 80,
            ..base
        },
        "C16" => Profile {
            prop: "C16",
            w: [26, 12, 8, 14, 5, 2, 2, 5, 5, 5, 7, 6, 2, 0, 0, 2, 0, 1],
            obs_level: 1,
            odd_values_pct: 40,
            max_extra: 3,
            drain_pct: 20,
            ..base
        },
        "C17" => Profile {
            prop: "C17",
            w: [36, 12, 8, 10, 10, 3, 2, 1, 1, 1, 1, 0, 0, 0, 0, 2, 0, 1],
            size_w: [30, 65, 5, 0, 0],
            obs_level: 1,
            drain_pct: 70,
            odd_values_pct: 45,
            ..base
        },
        "C18" => Profile {
            prop: "C18",
            w: [34, 8, 10, 8, 18, 12, 3, 1, 1, 1, 2, 2, 1, 0, 0, 5, 0, 3],
            kind_w: [35, 12, 12, 14, 22, 5],
            size_w: [30, 65, 5, 0, 0],
            obs_level: 1,
            drain_pct: 25,
            ..base
        },
        // base histories for the concurrent mode
        "C14" => Profile {
            prop: "C14",
            min_ops: 4,
            max_ops: 10,
            w: [50, 20, 0, 10, 5, 0, 0, 0, 0, 0, 0, 0, 0, 0, 0, 0, 0, 0],
            size_w: [20, 50, 25, 5, 0],
            blocker_pct: 0,
            ..base
        },
        _ => base,
    }
}

pub struct Gen {
    pub rng: Rng,
    pub p: Profile,
    pub model: Model,
    pub authors: Vec<B32>,
    pub times: Vec<u64>,
    pub kinds_regular: Vec<u16>,
    pub kinds_repl: Vec<u16>,
    pub kinds_param: Vec<u16>,
    pub values: Vec<String>,
    pub dvals: Vec<String>,
    pub letters: Vec<char>,
    pub offset_counter: u64,
    pub extra_tables: u8,
    /// the configuration the run starts with
    pub tables_initial: u8,
    /// one more than the highest extra table that has ever had a row put
    pub tables_hi: u8,
    pub clock: u64,
    pub used_all_ff: bool,
    pub used_all_00: bool,
}

fn long_value(prefix: char, n: usize, tail: &str) -> String {
    let mut s: String = std::iter::repeat(prefix).take(n - tail.len()).collect();
    s.push_str(tail);
    s
}

impl Gen {
    pub fn new(seed: u64, p: Profile) -> Gen {
        let mut rng = Rng::new(seed);
        let n_auth = 2 + rng.usize(p.authors.max(2) - 1);
        let mut authors: Vec<B32> = (0..n_auth).map(|_| rng.bytes32()).collect();
        if rng.chance(1, 10) {
            // a key with extreme leading bytes, and a neighbour differing in the last byte only
            let mut k = rng.bytes32();
            let fill = if rng.chance(1, 2) { 0xff } else { 0x00 };
            for b in k.iter_mut().take(12) {
                *b = fill;
            }
            authors[0] = k;
            if authors.len() > 2 {
                let mut k2 = k;
                k2[31] ^= 1;
                authors[1] = k2;
            }
        }
        // a small window of timestamps so that ties and neighbours are frequent
        let mut times: Vec<u64> = (0..8).map(|i| T0 + i * rng.range(1, 3)).collect();
        times.sort();
        times.dedup();
        if rng.chance(1, 6) {
            times.push(0);
        }
        if rng.chance(1, 6) {
            times.push(u64::MAX);
        }
        if rng.chance(1, 6) {
            times.push(1);
        }
        if rng.chance(1, 8) {
            // around 2^32 and 2^63 (truncation to 32 bits, sign confusion)
            let base = if rng.chance(3, 4) { 1u64 << 32 } else { 1u64 << 63 };
            times.push(base - rng.range(1, 3));
            times.push(base + rng.range(0, 3));
        }
        let odd = rng.chance(p.odd_values_pct, 100);
        let mut values: Vec<String> = vec!["x".into(), "y".into(), "nostr".into(), "".into()];
        let mut dvals: Vec<String> = vec!["x".into(), "y".into(), "".into()];
        if odd {
            values.push("x\0".into());
            values.push("x\0\0".into());
            values.push(long_value('q', 181, "a"));
            values.push(long_value('q', 182, "a"));
            values.push(long_value('q', 183, "aa"));
            values.push(long_value('q', 183, "ab"));
            values.push(long_value('q', 300, "zz"));
            values.push("ünï-çødé ✓".into());
            dvals.push("x\0".into());
            dvals.push(long_value('q', 182, "a"));
            dvals.push(long_value('q', 183, "aa"));
            dvals.push(long_value('q', 183, "ab"));
            dvals.push(long_value('q', 300, "zz"));
            dvals.push(long_value('q', 184, "\0\0")); // longer than 182 bytes, NUL tail
            dvals.push(long_value('q', 260, "y"));
            if rng.chance(1, 2) {
                // around the longest identifier whose deletion marker key the engine still takes
                // (35 + 476 = 511 bytes), and well beyond it
                dvals.push(long_value('q', 476, "k"));
                dvals.push(long_value('q', 477, "k"));
                dvals.push(long_value('q', 700, "k"));
            }
            dvals.push("dé".into());
            dvals.push("a:b".into());
            dvals.push("a".into());
            dvals.push("a:b:c".into());
        }
        let kinds_regular = vec![1u16, 4, 7, 9999, 40000, 65535, 2, 1059];
        let kinds_repl = vec![0u16, 3, 10000, 10001, 19999];
        let kinds_param = vec![30000u16, 30001, 39999];
        let extra_tables = rng.below(p.max_extra as u64 + 1) as u8;
        Gen {
            rng,
            p,
            model: Model::default(),
            authors,
            times,
            kinds_regular,
            kinds_repl,
            kinds_param,
            values,
            dvals,
            letters: vec!['e', 'p', 't', 'd', 'a', 'x', 'T'],
            offset_counter: 8,
            extra_tables,
            tables_initial: extra_tables,
            tables_hi: 0,
            clock: T0 + 100,
            used_all_ff: false,
            used_all_00: false,
        }
    }

    /// an event id: random, now and then with extreme leading / trailing bytes (the
    /// all-0xff and all-zero ids at most once per run)
    fn new_id(&mut self) -> B32 {
        let mut id = self.rng.bytes32();
        match self.rng.below(40) {
            5 if !self.used_all_ff => {
                // the largest id there is (forged: the store does not verify ids), once per run
                self.used_all_ff = true;
                return [0xff; 32];
            }
            6 if !self.used_all_00 => {
                self.used_all_00 = true;
                return [0x00; 32];
            }
            0 => {
                for b in id.iter_mut().take(8) {
                    *b = 0xff;
                }
            }
            1 => {
                for b in id.iter_mut().take(8) {
                    *b = 0x00;
                }
            }
            2 => {
                for b in id.iter_mut().skip(24) {
                    *b = 0xff;
                }
            }
            3 => {
                // 0xff everywhere but 8 random bytes in the middle
                for (n, b) in id.iter_mut().enumerate() {
                    if !(12..20).contains(&n) {
                        *b = 0xff;
                    }
                }
            }
            4 => {
                for (n, b) in id.iter_mut().enumerate() {
                    if !(12..20).contains(&n) {
                        *b = 0x00;
                    }
                }
            }
            _ => {}
        }
        id
    }

    fn time(&mut self) -> u64 {
        *self.rng.pick(&self.times)
    }

    fn kind(&mut self) -> u16 {
        match self.rng.weighted(&self.p.kind_w) {
            0 => *self.rng.pick(&self.kinds_regular),
            1 => *self.rng.pick(&self.kinds_repl),
            2 => *self.rng.pick(&self.kinds_param),
            3 => *self.rng.pick(&[20000u16, 29999, 25000]),
            4 => 1059,
            _ => {
                // anywhere in the range, biased to the class boundaries
                let b = [0u16, 1, 2, 3, 4, 5, 6, 9999, 10000, 10001, 19999, 20000, 20001, 29999, 30000, 30001, 39999, 40000, 40001, 65535];
                if self.rng.chance(1, 2) {
                    *self.rng.pick(&b)
                } else {
                    self.rng.below(65536) as u16
                }
            }
        }
    }

    fn content(&mut self) -> Vec<u8> {
        let n = match self.rng.weighted(&self.p.size_w) {
            0 => 0,
            1 => self.rng.range(1, 40) as usize,
            2 => self.rng.range(300, 420) as usize,
            3 => self.rng.range(1900, 2300) as usize,
            _ => self.rng.range(5800, 6400) as usize,
        };
        // very rarely an event of more than 64 KiB (u16-sized length fields, dozens of chunks)
        let n = if self.p.size_w[3] > 0 && self.rng.chance(1, 500) { self.rng.range(65_400, 72_000) as usize } else { n };
        // and events whose encoded size lands on either side of a power of two (4 KiB, 16 KiB, 64 KiB)
        let n = if self.p.size_w[3] > 0 && self.rng.chance(1, 120) {
            let b = *self.rng.pick(&[4096u64, 4096, 16384, 65536]);
            self.rng.range(b - 420, b + 80) as usize
        } else {
            n
        };
        let seed = self.rng.next();
        (0..n).map(|i| (seed.wrapping_mul(i as u64 + 1) >> 13) as u8).collect()
    }

    fn tag_value(&mut self) -> String {
        if self.rng.chance(1, 8) && !self.model.events.is_empty() {
            // an id or pubkey of something existing, as hex
            let ids: Vec<B32> = self.model.events.keys().copied().collect();
            return hex(&self.rng.pick(&ids).clone());
        }
        self.rng.pick(&self.values).clone()
    }

    fn random_tags(&mut self, kind: u16) -> Vec<Vec<String>> {
        let mut tags = vec![];
        if is_param(kind) {
            // now and then other tags (an empty tag, a value-less tag, an ordinary one) come
            // before the address-defining tag
            if self.rng.chance(1, 8) {
                match self.rng.below(4) {
                    0 => tags.push(vec![]),
                    1 => tags.push(vec!["t".to_string()]),
                    2 => tags.push(vec!["t".to_string(), self.tag_value()]),
                    _ => tags.push(vec!["D".to_string(), self.rng.pick(&self.dvals).clone()]),
                }
            }
            if self.rng.chance(1, 40) {
                // the first d tag has NO value: the event has no address at all (it is neither
                // displaced nor does it displace), whatever later d tags say
                tags.push(vec!["d".to_string()]);
            }
            // the address: the FIRST d tag, (otherwise) always with a value
            let d = self.rng.pick(&self.dvals).clone();
            tags.push(vec!["d".to_string(), d]);
        }
        if self.rng.chance(1, 14) {
            // NIP-40 expiration, before / at / after the simulated clock (the store's contract
            // does not mention it: an expired event is an event like any other)
            let t = match self.rng.below(4) {
                0 => self.clock.saturating_sub(self.rng.range(1, 500)),
                1 => self.clock,
                2 => self.clock.saturating_add(self.rng.range(1, 500)),
                _ => 0,
            };
            tags.push(vec!["expiration".to_string(), t.to_string()]);
        }
        let mut n = self.rng.weighted(&[25, 30, 25, 12, 8]);
        if self.rng.chance(1, 150) {
            // a wide event: dozens of tags
            n = self.rng.range(40, 120) as usize;
        }
        for _ in 0..n {
            let shape = self.rng.weighted(&[66, 8, 5, 5, 8, 4, 4]);
            let letter = self.rng.pick(&self.letters).to_string();
            let t = match shape {
                0 => vec![letter, self.tag_value()],
                1 => vec![letter, self.tag_value(), self.tag_value()], // multi-string
                2 => vec![letter],                                     // name only
                3 => vec![self.rng.pick(&["client", "nonce", "", "1", "#"]).to_string(), self.tag_value()],
                6 => {
                    // names and values from the wider NIP vocabulary (none of them means anything
                    // to the store's contract)
                    let name = *self.rng.pick(&["-", "k", "K", "E", "A", "I", "relay", "alt", "delegation", "subject", "r", "q", "expiration", "published_at", "proxy", "L", "l"]);
                    let val = match self.rng.below(6) {
                        0 => "wss://relay.example.com:7777/path?x=1".to_string(),
                        1 => self.rng.below(100_000).to_string(),
                        2 => "18446744073709551615".to_string(),
                        3 => hex(&self.rng.pick(&self.authors).clone()),
                        4 => format!("30023:{}:a:b", hex(&self.rng.pick(&self.authors).clone())),
                        _ => self.tag_value(),
                    };
                    if self.rng.chance(1, 5) {
                        vec![name.to_string()]
                    } else {
                        vec![name.to_string(), val]
                    }
                }
                4 => {
                    // repeat an earlier tag exactly
                    if let Some(t) = tags.last() {
                        let t: Vec<String> = t.clone();
                        t
                    } else {
                        vec![letter, self.tag_value()]
                    }
                }
                _ => vec![],
            };
            if is_param(kind) && t.first().map(|s| s == "d").unwrap_or(false) && !tags.iter().any(|x| x.first().map(|s| s == "d").unwrap_or(false)) {
                continue;
            }
            tags.push(t);
        }
        if kind == 5 {
            // a plain kind-5 without targets is generated by gen_deletion; here make sure no
            // accidental e/a targets exist
            tags.retain(|t| t.first().map(|s| s != "e" && s != "a").unwrap_or(true));
        }
        if is_param(kind) {
            // keep the first d tag first; a second d tag is allowed (address = first)
        } else {
            // for other kinds a d tag is just a tag
        }
        tags
    }

    pub fn new_event(&mut self) -> EvSpec {
        let mut kind = self.kind();
        if kind == 5 {
            kind = 1;
        }
        let pk = *self.rng.pick(&self.authors);
        let mut tags = self.random_tags(kind);
        if kind == 1059 {
            // gift wrap: p tag naming an author in various positions
            let who = hex(&self.rng.pick(&self.authors).clone());
            match self.rng.weighted(&[40, 20, 15, 15, 10]) {
                0 => tags.insert(0, vec!["p".into(), who]),
                1 => tags.push(vec!["p".into(), who]),
                4 => {
                    // two p tags: somebody else first, then the key
                    let other = hex(&self.rng.bytes32());
                    tags.insert(0, vec!["p".into(), who]);
                    tags.insert(0, vec!["p".into(), other]);
                }
                2 => tags.push(vec!["p".into(), "other".into(), who]), // not the first value: must not count
                _ => tags.push(vec!["P".into(), who]),
            }
        } else if self.rng.chance(1, 12) {
            // a p tag naming an author in a NON-giftwrap event (vanish must not touch it)
            let who = hex(&self.rng.pick(&self.authors).clone());
            tags.push(vec!["p".into(), who]);
        }
        EvSpec { id: self.new_id(), pk, kind, at: self.time(), tags, content: self.content() }
    }

    /// another version at an existing (or neighbouring) replaceable address
    pub fn new_version(&mut self) -> EvSpec {
        let addrs: Vec<AddrKey> = self
            .model
            .events
            .values()
            .filter_map(|e| e.addr())
            .collect::<std::collections::BTreeSet<_>>()
            .into_iter()
            .collect();
        if addrs.is_empty() {
            let mut e = self.new_event();
            if !is_replaceable(e.kind) && !is_param(e.kind) {
                e.kind = if self.rng.chance(1, 2) { *self.rng.pick(&self.kinds_repl) } else { *self.rng.pick(&self.kinds_param) };
                e.tags = self.random_tags(e.kind);
            }
            return e;
        }
        let mut a = self.rng.pick(&addrs).clone();
        // sometimes a neighbour: other author, kind +-1, d differing in the last byte / length
        match self.rng.weighted(&[70, 8, 8, 14]) {
            0 => {}
            1 => a.pk = *self.rng.pick(&self.authors),
            2 => {
                let k = if self.rng.chance(1, 2) { a.kind.wrapping_add(1) } else { a.kind.wrapping_sub(1) };
                if is_replaceable(k) == is_replaceable(a.kind) && is_param(k) == is_param(a.kind) {
                    a.kind = k;
                }
            }
            _ => {
                if is_param(a.kind) {
                    a.d = self.rng.pick(&self.dvals).clone().into_bytes();
                }
            }
        }
        // timestamp relative to the current holder: older / equal / newer
        let holder_at = self.model.holders(&a).first().map(|h| h.at);
        let at = match (holder_at, self.rng.weighted(&[35, 15, 50])) {
            (Some(h), 0) => h.saturating_sub(self.rng.range(1, 3)),
            (Some(h), 1) => h,
            (Some(h), _) => h.saturating_add(self.rng.range(1, 3)),
            (None, _) => self.time(),
        };
        if self.rng.chance(1, 5) {
            // a version of exactly the same encoded size as the holder (same tags, same content
            // length): only id, time and content bytes differ
            if let Some(h) = self.model.holders(&a).first().map(|h| (*h).clone()) {
                let seed = self.rng.next();
                let content: Vec<u8> = (0..h.content.len()).map(|i| (seed.wrapping_mul(i as u64 + 7) >> 9) as u8).collect();
                return EvSpec { id: self.rng.bytes32(), pk: h.pk, kind: h.kind, at, tags: h.tags.clone(), content };
            }
        }
        let mut tags = vec![];
        if is_param(a.kind) {
            tags.push(vec!["d".to_string(), String::from_utf8(a.d.clone()).unwrap_or_default()]);
            if self.rng.chance(1, 8) {
                // a second d tag: the address is still the first one
                tags.push(vec!["d".to_string(), self.rng.pick(&self.dvals).clone()]);
            }
        }
        if self.rng.chance(1, 3) {
            tags.push(vec!["t".into(), self.tag_value()]);
        }
        EvSpec { id: self.new_id(), pk: a.pk, kind: a.kind, at, tags, content: self.content() }
    }

    pub fn resubmit(&mut self) -> Option<EvSpec> {
        if self.model.events.is_empty() {
            return None;
        }
        let all: Vec<&EvSpec> = self.model.events.values().collect();
        // prefer events that are no longer retrievable (displaced, removed, deleted, ephemeral)
        let gone: Vec<&EvSpec> = all.iter().copied().filter(|e| !self.model.retrievable.contains(&e.id)).collect();
        let e = if !gone.is_empty() && self.rng.chance(2, 3) { *self.rng.pick(&gone) } else { *self.rng.pick(&all) };
        Some(e.clone())
    }

    /// A deletion request (kind 5) by `author` with 1..5 e/a tags
    pub fn deletion(&mut self) -> EvSpec {
        let pk = *self.rng.pick(&self.authors);
        let n = 1 + self.rng.weighted(&[45, 25, 15, 10, 5]);
        let own: Vec<EvSpec> = self.model.events.values().filter(|e| e.pk == pk).cloned().collect();
        let own_retr: Vec<EvSpec> = own.iter().filter(|e| self.model.retrievable.contains(&e.id)).cloned().collect();
        let foreign_retr: Vec<EvSpec> =
            self.model.events.values().filter(|e| e.pk != pk && self.model.retrievable.contains(&e.id)).cloned().collect();
        let foreign_w: u32 = match self.p.prop {
            "C10" => 30,
            "C12" => 20,
            _ => 6,
        };
        let mut tags: Vec<Vec<String>> = vec![];
        let mut ref_times: Vec<u64> = vec![];
        // now and then a request with a long target list (dozens of effective tags before a
        // possible failure; batch boundaries such as 64 or 128 inside)
        let big_den: u64 = match self.p.prop {
            "C10" => 25,
            "C12" | "C11" | "C13" => 40,
            _ => 60,
        };
        if self.rng.chance(1, big_den) {
            let nbig = *self.rng.pick(&[40usize, 63, 64, 65, 66, 100, 129, 140]);
            for k in 0..nbig {
                if !own_retr.is_empty() && self.rng.chance(1, 4) {
                    let t = self.rng.pick(&own_retr);
                    ref_times.push(t.at);
                    tags.push(vec!["e".into(), hex(&t.id)]);
                } else {
                    let mut id = self.rng.bytes32();
                    id[0] = (k & 0xff) as u8;
                    tags.push(vec!["e".into(), hex(&id)]);
                }
            }
            if !foreign_retr.is_empty() && self.rng.chance(3, 5) {
                let t = self.rng.pick(&foreign_retr);
                // late in the list, so that many effective tags precede it
                let pos = tags.len() - self.rng.usize(tags.len() / 4 + 1);
                tags.insert(pos, vec!["e".into(), hex(&t.id)]);
            }
            let at = ref_times.iter().copied().max().unwrap_or_else(|| self.time()).saturating_add(1);
            return EvSpec { id: self.rng.bytes32(), pk, kind: 5, at, tags, content: vec![] };
        }
        for _ in 0..n {
            match self.rng.weighted(&[30, 8, foreign_w, 6, 4, 30, 6, foreign_w / 2 + 1, 4]) {
                0 if !own_retr.is_empty() => {
                    let t = self.rng.pick(&own_retr);
                    ref_times.push(t.at);
                    tags.push(vec!["e".into(), hex(&t.id)]);
                }
                1 if !own.is_empty() => {
                    let t = self.rng.pick(&own);
                    ref_times.push(t.at);
                    tags.push(vec!["e".into(), hex(&t.id)]);
                }
                2 if !foreign_retr.is_empty() => {
                    let t = self.rng.pick(&foreign_retr);
                    tags.push(vec!["e".into(), hex(&t.id)]);
                }
                3 => {
                    // an id nobody has seen (now and then an extreme one)
                    let id = match self.rng.below(12) {
                        0 => [0u8; 32],
                        1 => [0xffu8; 32],
                        _ => self.rng.bytes32(),
                    };
                    tags.push(vec!["e".into(), hex(&id)]);
                }
                4 => {
                    // malformed id: wrong length or a non-hex ASCII letter
                    let bad = match self.rng.below(5) {
                        0 => "zz".to_string(),
                        1 => format!("{}zz", &hex(&self.rng.bytes32())[..62]),
                        // 64 bytes, not ASCII
                        2 => "\u{e9}".repeat(32),
                        3 => format!("\u{e9}{}", &hex(&self.rng.bytes32())[..62]),
                        _ => hex(&self.rng.bytes32())[..40].to_string(),
                    };
                    tags.push(vec!["e".into(), bad]);
                }
                5 => {
                    // own address: an existing one or a fresh one
                    let own_addrs: Vec<(AddrKey, u64)> = own.iter().filter_map(|e| e.addr().map(|a| (a, e.at))).collect();
                    let (a, t) = if !own_addrs.is_empty() && self.rng.chance(4, 5) {
                        self.rng.pick(&own_addrs).clone()
                    } else {
                        let param = self.rng.chance(1, 2);
                        let kind = if param { *self.rng.pick(&self.kinds_param) } else { *self.rng.pick(&self.kinds_repl) };
                        let d = if param { self.rng.pick(&self.dvals).clone().into_bytes() } else { vec![] };
                        (AddrKey { kind, pk, d }, self.time())
                    };
                    // an odd target now and then: a plain replaceable kind WITH an identifier (the
                    // implementation may take it for the address (key, kind) or ignore it - not both)
                    let a = if self.p.prop != "C14" && is_replaceable(a.kind) && a.d.is_empty() && self.rng.chance(1, 5) {
                        AddrKey { d: self.rng.pick(&["foo", "x", "0"]).as_bytes().to_vec(), ..a }
                    } else {
                        a
                    };
                    ref_times.push(t);
                    tags.push(vec!["a".into(), format!("{}:{}:{}", a.kind, hex(&a.pk), String::from_utf8(a.d).unwrap_or_default())]);
                }
                6 => {
                    // own "address" of a non-replaceable kind: sets a marker nobody consults
                    tags.push(vec!["a".into(), format!("1:{}:", hex(&pk))]);
                }
                7 => {
                    // foreign address
                    let others: Vec<B32> = self.authors.iter().copied().filter(|a| *a != pk).collect();
                    if let Some(o) = others.first() {
                        let faddrs: Vec<AddrKey> = self.model.events.values().filter(|e| e.pk != pk).filter_map(|e| e.addr()).collect();
                        let a = if !faddrs.is_empty() && self.rng.chance(3, 4) {
                            self.rng.pick(&faddrs).clone()
                        } else {
                            AddrKey { kind: *self.rng.pick(&self.kinds_repl), pk: *o, d: vec![] }
                        };
                        tags.push(vec!["a".into(), format!("{}:{}:{}", a.kind, hex(&a.pk), String::from_utf8(a.d).unwrap_or_default())]);
                    }
                }
                8 => {
                    let bad = match self.rng.below(5) {
                        0 => "notanaddr".to_string(),
                        1 => format!("30000:{}", hex(&pk)), // no third part
                        // a key of 64 bytes that are not ASCII
                        2 => format!("10000:{}:", "\u{e9}".repeat(32)),
                        3 => format!("30000:{}\u{e9}:x", &hex(&pk)[..62]),
                        _ => format!("30000:{}zz:x", &hex(&pk)[..62]),
                    };
                    tags.push(vec!["a".into(), bad]);
                }
                _ => {
                    let id = self.rng.bytes32();
                    tags.push(vec!["e".into(), hex(&id)]);
                }
            }
        }
        if self.rng.chance(1, 6) {
            tags.push(vec!["t".into(), "cleanup".into()]);
        }
        if self.rng.chance(1, 6) {
            // tags that name another author without being targets (they give no authority)
            let others: Vec<B32> = self.authors.iter().copied().filter(|a| *a != pk).collect();
            if let Some(o) = others.first() {
                let name = *self.rng.pick(&["p", "delegation", "P", "client"]);
                tags.push(vec![name.to_string(), hex(o), "created_at>0".to_string()]);
            }
        }
        self.rng.shuffle(&mut tags);
        if self.rng.chance(1, 8) {
            // a one-element tag (e.g. the NIP-70 marker) somewhere in the list, often first
            let marker = vec![self.rng.pick(&["-", "e", "a", "t"]).to_string()];
            let pos = if self.rng.chance(2, 3) { 0 } else { self.rng.usize(tags.len() + 1) };
            tags.insert(pos, marker);
        }
        if self.rng.chance(1, 30) {
            // a request dated 0 (covers only events dated 0; the marker must still be written)
            return EvSpec { id: self.rng.bytes32(), pk, kind: 5, at: 0, tags, content: vec![] };
        }
        // the request's own time: before / equal / after what it refers to
        let at = if let Some(r) = ref_times.first().copied() {
            match self.rng.weighted(&[25, 25, 50]) {
                0 => r.saturating_sub(self.rng.range(1, 2)),
                1 => r,
                _ => r.saturating_add(self.rng.range(1, 3)),
            }
        } else {
            self.time()
        };
        let id = self.rng.bytes32();
        if self.rng.chance(1, 25) {
            // a request that names itself (possible only with a forged id, which the store does not
            // verify): a target that cannot be meant - ignored, or the request refused
            let pos = self.rng.usize(tags.len() + 1);
            tags.insert(pos, vec!["e".into(), hex(&id)]);
        }
        EvSpec { id, pk, kind: 5, at, tags, content: vec![] }
    }

    pub fn query(&mut self) -> QuerySpec {
        let mut q = QuerySpec::default();
        let shape = self.rng.weighted(&[14, 16, 14, 12, 12, 12, 12, 8]);
        let (use_ids, use_auth, use_kinds, use_tags) = match shape {
            0 => (true, self.rng.chance(1, 4), self.rng.chance(1, 4), self.rng.chance(1, 5)),
            1 => (false, true, true, self.rng.chance(1, 4)),
            2 => (false, true, false, true),
            3 => (false, false, true, true),
            4 => (false, false, false, true),
            5 => (false, true, false, false),
            6 => (false, false, self.rng.chance(1, 2), false), // scrape
            _ => (self.rng.chance(1, 3), self.rng.chance(1, 2), self.rng.chance(1, 2), self.rng.chance(1, 2)),
        };
        let known: Vec<EvSpec> = self.model.events.values().cloned().collect();
        if use_ids {
            let mut n = 1 + self.rng.weighted(&[40, 30, 20, 10]);
            if self.rng.chance(1, 60) {
                n = self.rng.range(20, 70) as usize; // a wide id list
            }
            for _ in 0..n {
                if !known.is_empty() && self.rng.chance(5, 6) {
                    q.ids.push(self.rng.pick(&known).id);
                } else {
                    q.ids.push(self.rng.bytes32());
                }
            }
        }
        if use_auth {
            let n = 1 + self.rng.weighted(&[55, 30, 15]);
            for _ in 0..n {
                if self.rng.chance(9, 10) {
                    q.authors.push(*self.rng.pick(&self.authors));
                } else {
                    q.authors.push(self.rng.bytes32());
                }
            }
            q.authors.dedup();
        }
        if use_kinds {
            let mut n = 1 + self.rng.weighted(&[55, 30, 15]);
            if self.rng.chance(1, 60) {
                n = self.rng.range(15, 40) as usize; // a wide kind list
            }
            for _ in 0..n {
                if !known.is_empty() && self.rng.chance(5, 6) {
                    q.kinds.push(self.rng.pick(&known).kind);
                } else {
                    q.kinds.push(self.kind());
                }
            }
            q.kinds.dedup();
        }
        if use_tags {
            let nl = 1 + self.rng.weighted(&[70, 30]);
            let mut used = vec![];
            for _ in 0..nl {
                // letter+value taken from an existing event's tag most of the time
                let mut letter = *self.rng.pick(&self.letters);
                let mut vals: Vec<String> = vec![];
                let nv = 1 + self.rng.weighted(&[50, 35, 15]);
                let cands: Vec<(char, String)> = known
                    .iter()
                    .flat_map(|e| e.tags.iter())
                    .filter(|t| t.len() >= 2 && t[0].len() == 1 && t[0].chars().next().unwrap().is_ascii_alphabetic())
                    .map(|t| (t[0].chars().next().unwrap(), t[1].clone()))
                    .collect();
                if !cands.is_empty() && self.rng.chance(4, 5) {
                    let (l, v) = self.rng.pick(&cands).clone();
                    letter = l;
                    vals.push(v);
                }
                while vals.len() < nv {
                    // more values for the same letter: present ones and absent ones, in random position
                    let same: Vec<String> = cands.iter().filter(|(l, _)| *l == letter).map(|(_, v)| v.clone()).collect();
                    let v = if !same.is_empty() && self.rng.chance(1, 2) { self.rng.pick(&same).clone() } else { self.tag_value() };
                    if !vals.contains(&v) {
                        let pos = self.rng.usize(vals.len() + 1);
                        vals.insert(pos, v);
                    } else if self.rng.chance(1, 2) {
                        break;
                    }
                }
                if used.contains(&letter) {
                    continue;
                }
                used.push(letter);
                q.tags.push((letter, vals));
            }
        }
        // time window
        let near = |rng: &mut Rng, times: &[u64]| -> u64 {
            let t = *rng.pick(times);
            match rng.below(3) {
                0 => t.saturating_sub(1),
                1 => t,
                _ => t.saturating_add(1),
            }
        };
        match self.rng.weighted(&[40, 15, 15, 20, 5, 5]) {
            0 => {}
            1 => q.since = Some(near(&mut self.rng, &self.times)),
            2 => q.until = Some(near(&mut self.rng, &self.times)),
            3 => {
                let a = near(&mut self.rng, &self.times);
                let b = near(&mut self.rng, &self.times);
                q.since = Some(a.min(b));
                q.until = Some(a.max(b));
            }
            4 => {
                // inverted window
                let a = near(&mut self.rng, &self.times);
                let b = near(&mut self.rng, &self.times);
                q.since = Some(a.max(b));
                q.until = Some(a.min(b));
            }
            _ => {
                // window in the future of the simulated clock
                q.since = Some(self.clock.saturating_add(self.rng.range(1, 1000)));
                if self.rng.chance(1, 2) {
                    q.until = Some(self.clock.saturating_add(5000));
                }
            }
        }
        // allowances and screening
        q.allow_scrape = self.rng.chance(1, 2);
        q.scrape_limit = *self.rng.pick(&[0u32, 1, 5, 1000]);
        q.scrape_secs = *self.rng.pick(&[0u64, 1, 10, 3600, u64::MAX]);
        if self.rng.chance(3, 10) {
            q.screen_seed = self.rng.next();
            q.mismatch_pct = *self.rng.pick(&[0u8, 20, 50]);
            q.redact_pct = *self.rng.pick(&[0u8, 20, 50, 100]);
        }
        // limit around the number of matches
        let k = self.model.query_expect(&q).matching.len() as u32;
        q.limit = match self.rng.weighted(&[30, 8, 14, 10, 12, 10, 10, 6]) {
            0 => None,
            1 => Some(0),
            2 => Some(1),
            3 => Some(2),
            4 => Some(k.saturating_sub(1)),
            5 => Some(k),
            6 => Some(k + 1),
            _ => Some(*self.rng.pick(&[3u32, 499, 500, 501, u32::MAX - 1, u32::MAX])),
        };
        q
    }

    pub fn apply_store_to_gen_model(&mut self, e: &EvSpec) {
        self.model.note_event(e);
        let ex = self.model.store_expect(e);
        if !ex.must_fail() {
            let off = self.offset_counter;
            self.offset_counter += ((e.size() as u64) + 7) / 8 * 8;
            let _ = self.model.apply_store(e, off, e.size());
        }
    }

    pub fn trace(mut self, seed: u64) -> Trace {
        let n_ops = self.rng.range(self.p.min_ops as u64, self.p.max_ops as u64) as usize;
        let blocker = self.rng.chance(self.p.blocker_pct, 100);
        let mut ops: Vec<Op> = vec![Op::Clock(Some(self.clock))];
        // swarm: knock out a random subset of op kinds for this run
        let mut w = self.p.w;
        for (i, x) in w.iter_mut().enumerate() {
            if i != 0 && *x > 0 && self.rng.chance(1, 5) {
                *x = 0;
            }
        }
        if self.p.prop == "C05" {
            // populate first: 8-25 events (versions, deletions and removals among them), so that
            // the filters that follow have something to select from
            let n_pre = self.rng.range(8, 25);
            for _ in 0..n_pre {
                match self.rng.weighted(&[60, 20, 8, 8, 4]) {
                    0 => {
                        let e = self.new_event();
                        self.apply_store_to_gen_model(&e);
                        ops.push(Op::Store(e));
                    }
                    1 => {
                        let e = self.new_version();
                        self.apply_store_to_gen_model(&e);
                        ops.push(Op::Store(e));
                    }
                    2 => {
                        let e = self.deletion();
                        self.apply_store_to_gen_model(&e);
                        ops.push(Op::Store(e));
                    }
                    3 => {
                        let known: Vec<B32> = self.model.retrievable.iter().copied().collect();
                        if !known.is_empty() {
                            let id = *self.rng.pick(&known);
                            let _ = self.model.apply_remove(&id);
                            ops.push(Op::Remove(id));
                        }
                    }
                    _ => ops.push(Op::Reopen(*self.rng.pick(&[ReopenKind::Drop, ReopenKind::Close, ReopenKind::Copy]))),
                }
            }
        }
        if matches!(self.p.prop, "C09" | "C05" | "C17") && self.rng.chance(1, 40) {
            // a long line of versions at one address, arriving in shuffled time order
            let pk = *self.rng.pick(&self.authors);
            let param = self.rng.chance(1, 2);
            let kind = if param { *self.rng.pick(&self.kinds_param) } else { *self.rng.pick(&self.kinds_repl) };
            let d = self.rng.pick(&self.dvals).clone();
            let n = self.rng.range(10, 26);
            let mut ats: Vec<u64> = (0..n).map(|i| T0 + i / 2).collect();
            self.rng.shuffle(&mut ats);
            for at in ats {
                let mut tags = vec![];
                if param {
                    tags.push(vec!["d".to_string(), d.clone()]);
                }
                let e = EvSpec { id: self.rng.bytes32(), pk, kind, at, tags, content: vec![] };
                self.apply_store_to_gen_model(&e);
                ops.push(Op::Store(e));
            }
        }
        if self.p.prop == "C09" && self.rng.chance(1, 8) {
            // kind classification sweep: two versions per kind, across the class boundaries and
            // anywhere in the u16 range; replaceable kinds must displace / refuse, others coexist
            let pk = *self.rng.pick(&self.authors);
            let bounds = [0u16, 1, 2, 3, 4, 9999, 10000, 10001, 19999, 20000, 29999, 30000, 30001, 39999, 40000, 40001, 65535];
            let n = self.rng.range(6, 14);
            for _ in 0..n {
                let mut kind = if self.rng.chance(1, 2) { *self.rng.pick(&bounds) } else { self.rng.below(65536) as u16 };
                if kind == 5 {
                    kind = 6;
                }
                let t = self.time();
                let older_second = self.rng.chance(1, 2);
                for v in 0..2u64 {
                    let at = if v == 0 { t } else if older_second { t.saturating_sub(1) } else { t.saturating_add(1) };
                    let e = EvSpec { id: self.rng.bytes32(), pk, kind, at, tags: vec![vec!["d".into(), "s".into()]], content: vec![v as u8] };
                    self.apply_store_to_gen_model(&e);
                    ops.push(Op::Store(e));
                }
            }
        }
        let n_ops = n_ops + ops.len();
        while ops.len() < n_ops {
            let k = self.rng.weighted(&w);
            match OPK[k] {
                "store_new" => {
                    let e = self.new_event();
                    self.apply_store_to_gen_model(&e);
                    ops.push(Op::Store(e));
                }
                "new_version" => {
                    let e = self.new_version();
                    self.apply_store_to_gen_model(&e);
                    ops.push(Op::Store(e));
                }
                "resubmit" => {
                    if let Some(e) = self.resubmit() {
                        self.apply_store_to_gen_model(&e);
                        ops.push(Op::Store(e));
                    }
                }
                "deletion" => {
                    let e = self.deletion();
                    self.apply_store_to_gen_model(&e);
                    ops.push(Op::Store(e));
                }
                "remove" => {
                    let known: Vec<B32> = self.model.events.keys().copied().collect();
                    let id = if !known.is_empty() && self.rng.chance(9, 10) { *self.rng.pick(&known) } else { self.rng.bytes32() };
                    let _ = self.model.apply_remove(&id);
                    ops.push(Op::Remove(id));
                }
                "vanish" => {
                    let pk = if self.rng.chance(9, 10) { *self.rng.pick(&self.authors) } else { self.rng.bytes32() };
                    if self.rng.chance(1, 4) {
                        // the request is itself an event of the key: a relay that stores it first
                        // and then acts on it must lose it with everything else of the key
                        let req = crate::real::vanish_spec(&pk);
                        self.apply_store_to_gen_model(&req);
                        ops.push(Op::Store(req));
                    }
                    let _ = self.model.apply_vanish(&pk);
                    ops.push(Op::Vanish(pk));
                }
                "query" => {
                    let n = self.rng.range(self.p.query_burst.0 as u64, self.p.query_burst.1 as u64);
                    for _ in 0..n {
                        let q = self.query();
                        ops.push(Op::Query(q));
                    }
                }
                "reopen_drop" => {
                    if self.rng.chance(1, 4) {
                        ops.push(Op::Sync);
                    } else {
                        ops.push(Op::Reopen(ReopenKind::Drop));
                    }
                }
                "reopen_close" => {
                    if self.p.mode == Mode::Seq && self.p.max_extra > 0 && self.rng.chance(1, 3) {
                        // the store comes back with another set of extra tables
                        let n = self.rng.below(self.p.max_extra as u64 + 1) as u8;
                        self.extra_tables = n;
                        // (now and then listed in reverse order)
                        ops.push(Op::Tables(if n >= 2 && self.rng.chance(1, 3) { n + 10 } else { n }));
                    } else {
                        ops.push(Op::Reopen(ReopenKind::Close));
                    }
                }
                "reopen_copy" => ops.push(Op::Reopen(ReopenKind::Copy)),
                "rebuild" => {
                    if self.rng.chance(1, 5) {
                        // an operator reclaims disk space: one half of rebuild's backup is deleted
                        ops.push(Op::RemoveBackup(self.rng.below(4) as u8));
                    } else {
                        if self.p.mode == Mode::Seq && self.rng.chance(1, 6) {
                            // the rebuild itself runs out of room
                            ops.push(Op::Fsize(*self.rng.pick(&[0u8, 2, 4, 5, 6, 7, 4, 5])));
                        }
                        if self.extra_tables < self.tables_hi {
                            // (a rebuild carries over the tables it was opened with; rows of a table
                            // that is closed at that moment are nobody's business: not generated)
                            self.extra_tables = self.tables_hi;
                            ops.push(Op::Tables(self.tables_hi));
                        }
                        ops.push(Op::Rebuild);
                    }
                }
                "extra_put" => {
                    if self.extra_tables > 0 {
                        let t = self.rng.below(self.extra_tables as u64) as u8;
                        let kl = self.rng.range(1, 24) as usize;
                        let vl = self.rng.range(0, 40) as usize;
                        let k: Vec<u8> = (0..kl).map(|_| self.rng.below(256) as u8).collect();
                        let v: Vec<u8> = (0..vl).map(|_| self.rng.below(256) as u8).collect();
                        let _ = self.model.extra.entry(t).or_default().insert(k.clone(), v.clone());
                        self.tables_hi = self.tables_hi.max(t + 1);
                        ops.push(Op::ExtraPut(t, k, v));
                    }
                }
                "extra_del" => {
                    if self.extra_tables > 0 {
                        let t = self.rng.below(self.extra_tables as u64) as u8;
                        let keys: Vec<Vec<u8>> = self.model.extra.get(&t).map(|m| m.keys().cloned().collect()).unwrap_or_default();
                        if !keys.is_empty() {
                            let k = self.rng.pick(&keys).clone();
                            let _ = self.model.extra.get_mut(&t).unwrap().remove(&k);
                            ops.push(Op::ExtraDel(t, k));
                        }
                    }
                }
                "clock" => {
                    let c = match self.rng.weighted(&[30, 15, 15, 20, 10, 10]) {
                        0 => T0 + self.rng.range(0, 200),
                        1 => 0,
                        2 => T0 - self.rng.range(1, 1000), // before every `since` in use
                        3 => T0 + 1_000_000,
                        4 => u64::MAX,
                        _ => u64::MAX - 1,
                    };
                    self.clock = c;
                    self.model.clock = Some(c);
                    ops.push(Op::Clock(Some(c)));
                }
                "take_ref" => {
                    let r: Vec<B32> = self.model.retrievable.iter().copied().collect();
                    if !r.is_empty() {
                        ops.push(Op::TakeRef(*self.rng.pick(&r)));
                    }
                }
                "fail" if self.rng.chance(if self.p.mode == Mode::FailEnum { 9 } else { 3 }, 10) => {
                    // the next store / removal runs under a file size limit (no room to grow the
                    // map, or for the engine to extend its file); a store is retried afterwards
                    let mode = *self.rng.pick(&[0u8, 1, 2, 3, 8, 8]);
                    match self.rng.weighted(&[42, 24, 18, 10, 6]) {
                        4 => {
                            let pk = *self.rng.pick(&self.authors);
                            ops.push(Op::Fsize(mode));
                            ops.push(Op::Vanish(pk));
                            // then again with the limit lifted (the job is finished)
                            let _ = self.model.apply_vanish(&pk);
                            ops.push(Op::Vanish(pk));
                        }
                        0 => {
                            let e = if self.rng.chance(1, 2) { self.new_version() } else { self.new_event() };
                            ops.push(Op::Fsize(mode));
                            ops.push(Op::Store(e.clone()));
                            self.apply_store_to_gen_model(&e);
                            ops.push(Op::Store(e));
                        }
                        1 => {
                            let e = self.deletion();
                            ops.push(Op::Fsize(mode));
                            ops.push(Op::Store(e.clone()));
                            self.apply_store_to_gen_model(&e);
                            ops.push(Op::Store(e));
                        }
                        2 => {
                            // a burst of stores with the limit renewed before each: sooner or later
                            // one of them needs room
                            for _ in 0..self.rng.range(2, 6) {
                                let e = self.new_event();
                                ops.push(Op::Fsize(mode));
                                ops.push(Op::Store(e.clone()));
                                self.apply_store_to_gen_model(&e);
                                ops.push(Op::Store(e));
                            }
                        }
                        _ => {
                            let known: Vec<B32> = self.model.retrievable.iter().copied().collect();
                            if !known.is_empty() {
                                let id = *self.rng.pick(&known);
                                ops.push(Op::Fsize(mode));
                                ops.push(Op::Remove(id));
                                let _ = self.model.apply_remove(&id);
                                ops.push(Op::Remove(id));
                            }
                        }
                    }
                }
                "fail" if self.rng.chance(1, 8) => {
                    // a big event whose store fails in the middle of its growth loop (injected, or
                    // for real: no room beyond the next two or three chunks) and is NOT tried
                    // again; small events keep arriving until the map has to grow once more
                    let mut e = self.new_event();
                    let len = self.rng.range(4500, 9500) as usize;
                    let seed = self.rng.next();
                    e.content = (0..len).map(|i| (seed.wrapping_mul(i as u64 + 13) >> 9) as u8).collect();
                    if self.rng.chance(1, 2) {
                        ops.push(Op::Fail(1000 + self.rng.below(10) as u32));
                    } else {
                        ops.push(Op::Fsize(*self.rng.pick(&[9u8, 10])));
                    }
                    ops.push(Op::Store(e));
                    for _ in 0..self.rng.range(8, 26) {
                        let mut s = self.new_event();
                        if s.content.len() > 600 {
                            s.content.truncate(300);
                        }
                        self.apply_store_to_gen_model(&s);
                        ops.push(Op::Store(s));
                    }
                }
                "fail" => {
                    // the next mutating op has one of its fail-point calls fail (a store is then
                    // retried without the fault by the executor)
                    match self.rng.weighted(&[55, 20, 10, 15]) {
                        0 => {
                            let k = self.rng.below(6) as u32;
                            // a plain event, or (address-focused runs: mostly) a version that
                            // replaces the holder of an address
                            let versions = matches!(self.p.prop, "C09" | "C13" | "C12");
                            let e = if self.rng.chance(if versions { 7 } else { 2 }, 10) { self.new_version() } else { self.new_event() };
                            self.apply_store_to_gen_model(&e);
                            ops.push(Op::Fail(k));
                            ops.push(Op::Store(e));
                        }
                        1 => {
                            let k = self.rng.below(8) as u32;
                            let e = self.deletion();
                            self.apply_store_to_gen_model(&e);
                            ops.push(Op::Fail(k));
                            ops.push(Op::Store(e));
                        }
                        2 => {
                            let known: Vec<B32> = self.model.retrievable.iter().copied().collect();
                            if !known.is_empty() {
                                let id = *self.rng.pick(&known);
                                ops.push(Op::Fail(0));
                                ops.push(Op::Remove(id));
                                // the executor's model follows the real outcome; the generator's own
                                // model assumes the removal failed
                            }
                        }
                        _ => {
                            let pk = *self.rng.pick(&self.authors);
                            // fail the k-th removal of the vanish
                            let k = self.rng.below(4) as u32;
                            ops.push(Op::Fail(k));
                            ops.push(Op::Vanish(pk));
                            // then again without the fault (the job is finished)
                            let _ = self.model.apply_vanish(&pk);
                            ops.push(Op::Vanish(pk));
                        }
                    }
                }
                "starve" => {
                    // the next mutating op runs with LMDB's reader table exhausted
                    match self.rng.weighted(&[55, 25, 10, 10]) {
                        0 => {
                            let e = self.deletion();
                            ops.push(Op::Starve);
                            ops.push(Op::Store(e.clone()));
                            // retried afterwards without the fault
                            self.apply_store_to_gen_model(&e);
                            ops.push(Op::Store(e));
                        }
                        1 => {
                            let e = self.new_version();
                            ops.push(Op::Starve);
                            ops.push(Op::Store(e.clone()));
                            self.apply_store_to_gen_model(&e);
                            ops.push(Op::Store(e));
                        }
                        2 => {
                            let pk = *self.rng.pick(&self.authors);
                            ops.push(Op::Starve);
                            ops.push(Op::Vanish(pk));
                        }
                        _ => {
                            let known: Vec<B32> = self.model.retrievable.iter().copied().collect();
                            if !known.is_empty() {
                                let id = *self.rng.pick(&known);
                                let _ = self.model.apply_remove(&id);
                                ops.push(Op::Starve);
                                ops.push(Op::Remove(id));
                            }
                        }
                    }
                }
                "crash" => {
                    // the next mutating op is killed at one of its points and the run continues
                    // from the durable state
                    let k = self.rng.below(40) as u32;
                    ops.push(Op::Crash(k));
                    let e = if self.rng.chance(1, 3) { self.new_version() } else { self.new_event() };
                    // the generator cannot know whether the kill lands before or after the
                    // commit; its own model assumes "after" (explicit traces stay valid either way)
                    self.apply_store_to_gen_model(&e);
                    ops.push(Op::Store(e));
                }
                _ => {}
            }
        }
        if crate::check::release_build() && self.p.mode != Mode::Crash && self.rng.chance(1, 2) {
            // the release-like build grows the map in chunks of 4 MiB, which small events never fill:
            // early in the run the map is lengthened to a little short of a chunk boundary (as after
            // megabytes of events long gone), so that growth, remaps and everything keyed to the
            // chunk size take part in this leg as well
            let n = 1 + self.rng.below(3);
            let delta = *self.rng.pick(&[0u64, 56, 300, 2000, 9000, 30000, 70000]);
            let pos = (1 + self.rng.usize(5)).min(ops.len());
            ops.insert(pos, Op::Inflate(n * 4 * 1024 * 1024 - delta));
            if matches!(self.p.prop, "C04" | "C15") && self.rng.chance(1, 16) {
                // and a few events of megabytes, so that one life of the store crosses two or three
                // chunk boundaries (state kept beside the map drifts only over several growths)
                let nbig = 2 + self.rng.usize(2);
                let mut at_pos = pos + 1;
                for _ in 0..nbig {
                    let mut e = self.new_event();
                    e.kind = 1;
                    e.tags.clear();
                    let len = *self.rng.pick(&[1_500_000usize, 2_800_000, 4_190_000, 4_300_000]) + self.rng.usize(4000);
                    let seed = self.rng.next();
                    e.content = (0..len).map(|i| (seed.wrapping_mul(i as u64 + 17) >> 13) as u8).collect();
                    self.apply_store_to_gen_model(&e);
                    at_pos = (at_pos + self.rng.usize(3)).min(ops.len());
                    ops.insert(at_pos, Op::Store(e));
                    at_pos += 1;
                }
            }
        }
        if self.rng.chance(self.p.drain_pct, 100) {
            // remove every retrievable event by a mix of paths; afterwards all indexes must be empty
            let mut guard = 0;
            while !self.model.retrievable.is_empty() && guard < 200 {
                guard += 1;
                let id = *self.model.retrievable.iter().next().unwrap();
                let e = self.model.events[&id].clone();
                match self.rng.weighted(&[60, 20, 20]) {
                    0 => {
                        let _ = self.model.apply_remove(&id);
                        ops.push(Op::Remove(id));
                    }
                    1 => {
                        let _ = self.model.apply_vanish(&e.pk);
                        ops.push(Op::Vanish(e.pk));
                    }
                    _ => {
                        let del = EvSpec {
                            id: self.rng.bytes32(),
                            pk: e.pk,
                            kind: 5,
                            at: e.at.saturating_add(1),
                            tags: vec![vec!["e".into(), hex(&id)]],
                            content: vec![],
                        };
                        self.apply_store_to_gen_model(&del);
                        ops.push(Op::Store(del));
                    }
                }
            }
        }
        if self.model.retrievable.is_empty() && self.rng.chance(1, 2) {
            // a restart of a store in which nothing is retrievable (everything removed, or only
            // ephemeral events ever stored), and one more event afterwards
            ops.push(Op::Reopen(*self.rng.pick(&[ReopenKind::Drop, ReopenKind::Close, ReopenKind::Copy])));
            let e = self.new_event();
            self.apply_store_to_gen_model(&e);
            ops.push(Op::Store(e));
        }
        Trace {
            cfg: Cfg {
                prop: self.p.prop.to_string(),
                mode: self.p.mode,
                seed,
                blocker,
                extra_tables: self.tables_initial,
                obs_level: self.p.obs_level,
                drain: false,
            },
            ops,
            threads: vec![],
            schedule: vec![],
            expect: None,
        }
    }
}

/// A bulk history: many hundreds of small events of one key (and gift-wraps naming it), then
/// queries / a vanish over them. Observed sparsely (cfg.obs_level 9: only after removals,
/// vanishes, restarts and at the end), so that it stays cheap.
fn bulk_trace(prop: &str, seed: u64) -> Trace {
    let mut g = Gen::new(seed, profile(prop));
    let pk = g.authors[0];
    let other = g.authors[1];
    // (C13: a smaller crowd, and the vanish is killed half-way, the store recovered, the vanish
    // run again to the end: whatever pages or batches the vanish works in, nothing of the key may
    // be left)
    let small = prop == "C13";
    let n_own = if small { g.rng.range(66, 210) as usize } else { g.rng.range(505, 640) as usize };
    let n_wraps = if small {
        if g.rng.chance(1, 2) { g.rng.range(66, 140) as usize } else { g.rng.range(0, 10) as usize }
    } else if g.rng.chance(1, 2) {
        g.rng.range(505, 560) as usize
    } else {
        g.rng.range(0, 30) as usize
    };
    let mut ops: Vec<Op> = vec![Op::Clock(Some(g.clock))];
    for i in 0..n_own {
        let e = EvSpec { id: g.rng.bytes32(), pk, kind: 1, at: T0 + (i as u64 % 50), tags: vec![], content: vec![(i & 0xff) as u8] };
        g.apply_store_to_gen_model(&e);
        ops.push(Op::Store(e));
    }
    for i in 0..n_wraps {
        let e = EvSpec { id: g.rng.bytes32(), pk: other, kind: 1059, at: T0 + (i as u64 % 50), tags: vec![vec!["p".into(), hex(&pk)]], content: vec![] };
        g.apply_store_to_gen_model(&e);
        ops.push(Op::Store(e));
    }
    for _ in 0..g.rng.range(3, 8) {
        let e = g.new_event();
        g.apply_store_to_gen_model(&e);
        ops.push(Op::Store(e));
    }
    // unlimited and limited queries over the big author, then the vanish
    let base = QuerySpec::all_allowed();
    ops.push(Op::Query(QuerySpec { authors: vec![pk], ..base.clone() }));
    ops.push(Op::Query(QuerySpec { authors: vec![pk], kinds: vec![1], ..base.clone() }));
    ops.push(Op::Query(QuerySpec { kinds: vec![1059], tags: vec![('p', vec![hex(&pk)])], ..base.clone() }));
    ops.push(Op::Query(QuerySpec { limit: Some(g.rng.range(498, 520) as u32), ..base.clone() }));
    ops.push(Op::Query(base.clone()));
    if small {
        let _ = g.model.apply_vanish(&pk);
        if g.rng.chance(2, 3) {
            ops.push(Op::Crash(g.rng.below(60) as u32));
        }
        ops.push(Op::Vanish(pk));
        ops.push(Op::Vanish(pk));
    } else if g.rng.chance(2, 3) {
        let _ = g.model.apply_vanish(&pk);
        ops.push(Op::Vanish(pk));
    } else {
        ops.push(Op::Reopen(ReopenKind::Close));
    }
    ops.push(Op::Query(base));
    Trace {
        cfg: Cfg { prop: prop.to_string(), mode: Mode::Seq, seed, blocker: false, extra_tables: 0, obs_level: 9, drain: false },
        ops,
        threads: vec![],
        schedule: vec![],
        expect: None,
    }
}

/// One long life of a store without any restart: 60-200 stores of small events whose encoded
/// sizes are mostly not multiples of 8 (so that alignment padding accumulates), a few removals,
/// everything observed after every step. State kept beside the map for the life of the store
/// object (cached ends, lengths, addresses) only drifts in such a history.
fn long_session_trace(prop: &str, seed: u64) -> Trace {
    let mut p = profile(prop);
    p.size_w = [5, 95, 0, 0, 0];
    let mut g = Gen::new(seed, p);
    let n = g.rng.range(60, 200) as usize;
    let mut ops: Vec<Op> = vec![Op::Clock(Some(g.clock))];
    let mut stored: Vec<B32> = vec![];
    for _ in 0..n {
        let e = g.new_event();
        g.apply_store_to_gen_model(&e);
        stored.push(e.id);
        ops.push(Op::Store(e));
        if g.rng.chance(1, 15) {
            let id = *g.rng.pick(&stored);
            let _ = g.model.apply_remove(&id);
            ops.push(Op::Remove(id));
        }
        if prop == "C15" && g.rng.chance(1, 8) {
            ops.push(Op::TakeRef(*g.rng.pick(&stored)));
        }
    }
    Trace {
        cfg: Cfg { prop: prop.to_string(), mode: Mode::Seq, seed, blocker: false, extra_tables: 0, obs_level: 0, drain: false },
        ops,
        threads: vec![],
        schedule: vec![],
        expect: None,
    }
}

/// Two addresses that differ as little as addresses can (identifiers that collide in one of the
/// key forms: padded, cut at 182 bytes, length taken modulo 256, trailing NULs; a neighbouring
/// kind; another author) and a history that plays them against each other: versions older and
/// newer than the holder, deletions of the one or the other by address and by id (own and
/// foreign), resubmissions, removals, with every kind of restart and rebuild in between. What
/// happens to one address must never show at the other, before or after a restart.
fn pair_duel_trace(prop: &str, seed: u64) -> Trace {
    let mut p = profile(prop);
    p.size_w = [40, 60, 0, 0, 0];
    let mut g = Gen::new(seed, p);
    let pk = g.authors[0];
    let pk2 = g.authors[1];
    let q182: String = "q".repeat(182);
    let l300: String = (0..300).map(|i| (b'a' + (i % 23) as u8) as char).collect();
    let m256: String = (0..256).map(|i| (b'A' + (i % 19) as u8) as char).collect();
    let l477: String = (0..477).map(|i| (b'k' + (i % 7) as u8) as char).collect();
    let pairs: Vec<(String, String)> = vec![
        ("x".into(), "x\0".into()),
        ("".into(), "\0".into()),
        (q182.clone(), format!("{q182}a")),
        (format!("{q182}a"), format!("{q182}b")),
        (q182.clone(), format!("{q182}\0")),
        (format!("{q182}\0\0"), format!("{q182}\0")),
        (l300.clone(), l300[..44].to_string()),
        (l300.clone(), l300[..182].to_string()),
        (l300.clone(), l300[..255].to_string()),
        (m256.clone(), "".into()),
        (m256.clone(), m256[..255].to_string()),
        (l477.clone(), l477[..476].to_string()),
        (l477.clone(), l477[..221].to_string()),
        ("a:b".into(), "a".into()),
        ("x".into(), "X".into()),
    ];
    let (da, db) = g.rng.pick(&pairs).clone();
    // the two addresses: mostly the identifier differs; now and then the kind or the author
    let kind: u16 = *g.rng.pick(&[30000u16, 30001, 30023, 39999, 31234]);
    let variant = g.rng.weighted(&[70, 10, 10, 10]);
    let (ka, kb, pa, pb, da, db) = match variant {
        0 => (kind, kind, pk, pk, da, db),
        1 => (kind, if kind == 39999 { 39998 } else { kind + 1 }, pk, pk, da.clone(), da),
        2 => (kind, kind, pk, pk2, da.clone(), da),
        _ => {
            // plain replaceable kinds next to each other (no identifier)
            let k = *g.rng.pick(&[0u16, 3, 10000, 10002, 19999]);
            let k2 = match k {
                0 => 3,
                3 => 0,
                19999 => 19998,
                x => x + 1,
            };
            (k, k2, pk, pk, String::new(), String::new())
        }
    };
    let param = ka >= 30000;
    let mk_version = |g: &mut Gen, k: u16, a: B32, d: &str, at: u64| -> EvSpec {
        let mut tags: Vec<Vec<String>> = vec![];
        if param {
            tags.push(vec!["d".into(), d.to_string()]);
        }
        if g.rng.chance(1, 3) {
            tags.push(vec!["t".into(), "duel".into()]);
        }
        EvSpec { id: g.rng.bytes32(), pk: a, kind: k, at, tags, content: vec![(at & 0xff) as u8; (at % 40) as usize] }
    };
    let atag = |k: u16, a: &B32, d: &str| -> Vec<String> { vec!["a".to_string(), format!("{}:{}:{}", k, hex(a), d)] };
    let mut ops: Vec<Op> = vec![Op::Clock(Some(g.clock))];
    let mut versions: Vec<EvSpec> = vec![];
    // a little ordinary history first
    for _ in 0..g.rng.range(0, 3) {
        let e = g.new_event();
        g.apply_store_to_gen_model(&e);
        ops.push(Op::Store(e));
    }
    let n = g.rng.range(8, 20);
    for _ in 0..n {
        let side_a = g.rng.chance(1, 2);
        let (k, a, d) = if side_a { (ka, pa, da.as_str()) } else { (kb, pb, db.as_str()) };
        let at = T0 + g.rng.range(0, 12);
        match g.rng.weighted(&[34, 22, 6, 10, 6, 22]) {
            0 => {
                let e = mk_version(&mut g, k, a, d, at);
                g.apply_store_to_gen_model(&e);
                versions.push(e.clone());
                ops.push(Op::Store(e));
            }
            1 => {
                // a deletion of the address by its author (now and then by the other side's
                // author, or naming both addresses)
                let by = if g.rng.chance(1, 8) { if a == pk { pk2 } else { pk } } else { a };
                let mut tags = vec![atag(k, &a, d)];
                if g.rng.chance(1, 6) {
                    let (k2, a2, d2) = if side_a { (kb, pb, db.as_str()) } else { (ka, pa, da.as_str()) };
                    if a2 == by {
                        tags.push(atag(k2, &a2, d2));
                    }
                }
                let e = EvSpec { id: g.rng.bytes32(), pk: by, kind: 5, at, tags, content: vec![] };
                g.apply_store_to_gen_model(&e);
                ops.push(Op::Store(e));
            }
            2 => {
                // a deletion by id of one of the versions
                if !versions.is_empty() {
                    let v = g.rng.pick(&versions).clone();
                    let e = EvSpec { id: g.rng.bytes32(), pk: v.pk, kind: 5, at: v.at.saturating_add(g.rng.below(3)), tags: vec![vec!["e".into(), hex(&v.id)]], content: vec![] };
                    g.apply_store_to_gen_model(&e);
                    ops.push(Op::Store(e));
                }
            }
            3 => {
                if !versions.is_empty() {
                    let v = g.rng.pick(&versions).clone();
                    g.apply_store_to_gen_model(&v);
                    ops.push(Op::Store(v));
                }
            }
            4 => {
                if !versions.is_empty() {
                    let id = g.rng.pick(&versions).id;
                    let _ = g.model.apply_remove(&id);
                    ops.push(Op::Remove(id));
                }
            }
            _ => {
                ops.push(match g.rng.weighted(&[20, 25, 20, 35]) {
                    0 => Op::Reopen(ReopenKind::Drop),
                    1 => Op::Reopen(ReopenKind::Close),
                    2 => Op::Reopen(ReopenKind::Copy),
                    _ => Op::Rebuild,
                });
            }
        }
    }
    // and at the end every version once more: what is covered stays refused, what is not is judged
    // by the ordinary rules
    if g.rng.chance(1, 2) {
        ops.push(Op::Rebuild);
    }
    let mut again = versions.clone();
    g.rng.shuffle(&mut again);
    for v in again.into_iter().take(6) {
        g.apply_store_to_gen_model(&v);
        ops.push(Op::Store(v));
    }
    Trace {
        cfg: Cfg { prop: prop.to_string(), mode: Mode::Seq, seed, blocker: false, extra_tables: 0, obs_level: 1, drain: false },
        ops,
        threads: vec![],
        schedule: vec![],
        expect: None,
    }
}

/// A store that has to walk a long index range before it is refused or fails: one author with a
/// holder at a parameterised address and 130-300 other events of his carrying the same `d` value
/// (other kinds: they lie in the same author-`d` range and are not at the address), or 130-300
/// events of one (author, kind) range; then a deletion request for the address that is refused at
/// its second tag (it names somebody else's event), an older version that is refused as replaced, a
/// newer version whose store fails after the walk (injected), a request that runs out of reader
/// slots. Nothing may have changed after any of them, however far the walk got.
fn long_walk_refusal_trace(prop: &str, seed: u64) -> Trace {
    let mut p = profile(prop);
    p.size_w = [60, 40, 0, 0, 0];
    let mut g = Gen::new(seed, p);
    let a = g.authors[0];
    let b = g.authors[1];
    let mut ops: Vec<Op> = vec![Op::Clock(Some(g.clock))];
    let dval = (*g.rng.pick(&["x", "walk", ""])).to_string();
    let kind: u16 = *g.rng.pick(&[30000u16, 30023, 39999]);
    let mk = |g: &mut Gen, pk: B32, kind: u16, at: u64, tags: Vec<Vec<String>>| EvSpec { id: g.rng.bytes32(), pk, kind, at, tags, content: vec![(at & 0x7f) as u8; 3] };
    let holder = mk(&mut g, a, kind, T0 + 50, vec![vec!["d".into(), dval.clone()]]);
    g.apply_store_to_gen_model(&holder);
    ops.push(Op::Store(holder.clone()));
    let victim = mk(&mut g, b, 1, T0 + 5, vec![]);
    g.apply_store_to_gen_model(&victim);
    ops.push(Op::Store(victim.clone()));
    let n = *g.rng.pick(&[130usize, 140, 200, 257, 300]);
    let same_range_other_kinds = g.rng.chance(2, 3);
    for i in 0..n {
        let at = T0 + (i as u64 % 40);
        let e = if same_range_other_kinds {
            // same author, same `d` value, another kind: in the author-`d` range, not at the address
            let k2 = *g.rng.pick(&[1u16, 7, 30001, 1059]);
            mk(&mut g, a, k2, at, vec![vec!["d".into(), dval.clone()]])
        } else {
            mk(&mut g, a, 1, at, vec![vec!["t".into(), "walk".into()]])
        };
        if e.kind == 30001 && g.model.holders(&e.addr().unwrap()).iter().any(|h| h.at >= e.at) {
            continue;
        }
        g.apply_store_to_gen_model(&e);
        ops.push(Op::Store(e));
    }
    let atag = vec!["a".to_string(), format!("{}:{}:{}", kind, hex(&a), dval)];
    for _ in 0..g.rng.range(2, 5) {
        match g.rng.below(5) {
            0 | 1 => {
                // the address (walk, removal, marker) and then somebody else's event: refused
                let del = mk(&mut g, a, 5, T0 + 60, vec![atag.clone(), vec!["e".into(), hex(&victim.id)]]);
                g.apply_store_to_gen_model(&del);
                ops.push(Op::Store(del));
            }
            2 => {
                // an older version: refused as replaced after the walk
                let old = mk(&mut g, a, kind, T0 + 40, vec![vec!["d".into(), dval.clone()]]);
                g.apply_store_to_gen_model(&old);
                ops.push(Op::Store(old));
            }
            3 => {
                // a newer version whose store fails after the walk (and is retried)
                let at2 = T0 + 51 + g.rng.below(5);
                let newer = mk(&mut g, a, kind, at2, vec![vec!["d".into(), dval.clone()]]);
                g.apply_store_to_gen_model(&newer);
                ops.push(Op::Fail(g.rng.below(4) as u32));
                ops.push(Op::Store(newer));
            }
            _ => {
                let del = mk(&mut g, a, 5, T0 + 61, vec![atag.clone()]);
                ops.push(Op::Starve);
                ops.push(Op::Store(del.clone()));
                g.apply_store_to_gen_model(&del);
                ops.push(Op::Store(del));
            }
        }
    }
    Trace {
        cfg: Cfg { prop: prop.to_string(), mode: Mode::Seq, seed, blocker: false, extra_tables: 0, obs_level: 9, drain: false },
        ops,
        threads: vec![],
        schedule: vec![],
        expect: None,
    }
}

/// One dimension taken far beyond what the ordinary mixes reach: hundreds of tags in one event,
/// of values in one tag or one filter list, values of kilobytes, a thousand events of one key
/// or of one second, hundreds of versions at one address, of deletion requests, dozens of
/// restarts. Observed sparsely (after removals, vanishes, restarts and at the end); every query
/// in the trace is judged on its own.
fn scale_trace(prop: &str, seed: u64) -> Trace {
    let mut p = profile(prop);
    p.size_w = [20, 80, 0, 0, 0];
    let mut g = Gen::new(seed, p);
    let pk = g.authors[0];
    let other = g.authors[1];
    let base = QuerySpec::all_allowed();
    let mut ops: Vec<Op> = vec![Op::Clock(Some(g.clock))];
    let mut push_store = |g: &mut Gen, ops: &mut Vec<Op>, e: EvSpec| {
        g.apply_store_to_gen_model(&e);
        ops.push(Op::Store(e));
    };
    // a little ordinary history first
    for _ in 0..g.rng.range(2, 6) {
        let e = g.new_event();
        push_store(&mut g, &mut ops, e);
    }
    let dim = match prop {
        // rebuild-heavy dimensions for the restart property
        "C16" => *g.rng.pick(&[3u64, 3, 3, 5, 5, 6, 6, 0, 2, 4, 9]),
        "C18" | "C17" => *g.rng.pick(&[0u64, 0, 0, 1, 2, 3, 3, 8, 4, 5, 6, 7, 9, 10]),
        "C10" | "C09" => *g.rng.pick(&[4u64, 4, 9, 9, 10, 10, 10, 0, 1, 2, 3, 5, 7]),
        "C04" | "C15" => *g.rng.pick(&[10u64, 10, 10, 3, 3, 2, 2, 6, 0, 4]),
        _ => g.rng.below(11),
    };
    match dim {
        0 => {
            // one event with hundreds of tags (distinct, repeated, value-less ones among them)
            let n = *g.rng.pick(&[255usize, 256, 257, 300, 1100]);
            let mut tags: Vec<Vec<String>> = vec![];
            for i in 0..n {
                let letter = *g.rng.pick(&["t", "p", "e", "r", "T"]);
                let v = match g.rng.below(6) {
                    0 => "same".to_string(),
                    1 => return_valueless(&mut tags, letter),
                    _ => format!("v{i}"),
                };
                if !v.is_empty() {
                    tags.push(vec![letter.to_string(), v]);
                }
            }
            let kind = *g.rng.pick(&[1u16, 30000, 10000]);
            if kind == 30000 {
                let pos = g.rng.usize(tags.len());
                tags.insert(pos, vec!["d".into(), "wide".into()]);
            }
            let e = EvSpec { id: g.rng.bytes32(), pk, kind, at: T0 + 5, tags: tags.clone(), content: vec![1, 2, 3] };
            push_store(&mut g, &mut ops, e.clone());
            // found through every one of its tags
            let mut seen_pairs = std::collections::BTreeSet::new();
            let mut every: Vec<QuerySpec> = vec![];
            for t in &tags {
                if t.len() >= 2 && t[0].len() == 1 && seen_pairs.insert((t[0].clone(), t[1].clone())) {
                    let c = t[0].chars().next().unwrap();
                    every.push(QuerySpec { tags: vec![(c, vec![t[1].clone()])], ..base.clone() });
                }
            }
            for q in &every {
                ops.push(Op::Query(q.clone()));
            }
            for i in [0usize, tags.len() / 2, tags.len() - 1] {
                if tags[i].len() >= 2 && tags[i][0].len() == 1 {
                    let c = tags[i][0].chars().next().unwrap();
                    ops.push(Op::Query(QuerySpec { tags: vec![(c, vec![tags[i][1].clone()])], ..base.clone() }));
                    ops.push(Op::Query(QuerySpec { authors: vec![pk], tags: vec![(c, vec![tags[i][1].clone()])], ..base.clone() }));
                }
            }
            if kind != 1 {
                let mut newer = e.clone();
                newer.id = g.rng.bytes32();
                newer.at += 1;
                newer.tags.truncate(3);
                if kind == 30000 {
                    newer.tags.push(vec!["d".into(), "wide".into()]);
                }
                push_store(&mut g, &mut ops, newer);
            } else {
                let _ = g.model.apply_remove(&e.id);
                ops.push(Op::Remove(e.id));
            }
            // ... and through none of them any more
            for q in every {
                ops.push(Op::Query(q));
            }
        }
        1 => {
            // a tag with hundreds of values; filters with hundreds of values
            let n = *g.rng.pick(&[255usize, 256, 300, 700]);
            let mut t = vec!["t".to_string()];
            for i in 0..n {
                t.push(format!("w{i}"));
            }
            let e = EvSpec { id: g.rng.bytes32(), pk, kind: 1, at: T0 + 3, tags: vec![t, vec!["t".into(), "last".into()]], content: vec![] };
            push_store(&mut g, &mut ops, e);
            let many: Vec<String> = (0..n).map(|i| format!("z{i}")).chain(["last".to_string()]).collect();
            ops.push(Op::Query(QuerySpec { tags: vec![('t', many.clone())], ..base.clone() }));
            ops.push(Op::Query(QuerySpec { tags: vec![('t', vec!["w0".into()])], ..base.clone() }));
            ops.push(Op::Query(QuerySpec { tags: vec![('t', vec!["w5".into()])], ..base.clone() }));
            ops.push(Op::Query(QuerySpec { authors: vec![pk], tags: vec![('t', many)], ..base.clone() }));
        }
        2 => {
            // values, identifiers and contents of kilobytes (an event larger than a page, a chunk, 64 KiB)
            // (the binary form keeps string lengths and tag offsets in 16 bits: values stay below
            // that; the content has no such bound)
            let n = *g.rng.pick(&[2049usize, 4097, 5000, 60_000]);
            let long: String = std::iter::repeat('L').take(n).collect();
            let e1 = EvSpec { id: g.rng.bytes32(), pk, kind: 1, at: T0 + 1, tags: vec![vec!["t".into(), long.clone()], vec!["t".into(), "after".into()]], content: vec![] };
            let e2 = EvSpec { id: g.rng.bytes32(), pk, kind: 30001, at: T0 + 2, tags: vec![vec!["d".into(), long.clone()]], content: vec![7; if n > 50_000 { 10 } else { 66_000 }] };
            let mut e3 = e2.clone();
            e3.id = g.rng.bytes32();
            e3.at += 1;
            push_store(&mut g, &mut ops, e1.clone());
            push_store(&mut g, &mut ops, e2);
            push_store(&mut g, &mut ops, e3);
            ops.push(Op::Query(QuerySpec { tags: vec![('t', vec!["after".into()])], ..base.clone() }));
            ops.push(Op::Query(QuerySpec { tags: vec![('t', vec![long.clone()])], ..base.clone() }));
            ops.push(Op::Query(QuerySpec { authors: vec![pk], tags: vec![('d', vec![long])], ..base.clone() }));
            ops.push(Op::Reopen(ReopenKind::Close));
            let _ = g.model.apply_remove(&e1.id);
            ops.push(Op::Remove(e1.id));
        }
        3 | 8 => {
            // a thousand events of one key (dim 8: all of one second), limits at the edges
            // (beyond 1024 in half of the runs: pages of 512 / 1024 entries, rings of 1024 slots)
            let n = if g.rng.chance(1, 2) { g.rng.range(1026, 1400) } else { g.rng.range(514, 1023) } as usize;
            let mut ids = vec![];
            for i in 0..n {
                let at = if dim == 8 { T0 + 7 } else { T0 + (i as u64 % 97) };
                let e = EvSpec { id: g.rng.bytes32(), pk, kind: if i % 5 == 0 { 7 } else { 1 }, at, tags: vec![vec!["t".into(), format!("g{}", i % 3)]], content: vec![(i & 0xff) as u8] };
                ids.push(e.id);
                push_store(&mut g, &mut ops, e);
            }
            for l in [0u32, 1, 255, 256, 257, 1000, 1023, 1024, 1025, 65535, 65536, u32::MAX] {
                ops.push(Op::Query(QuerySpec { authors: vec![pk], limit: Some(l), ..base.clone() }));
            }
            ops.push(Op::Query(QuerySpec { authors: vec![pk], kinds: vec![7], ..base.clone() }));
            ops.push(Op::Query(base.clone()));
            ops.push(Op::Query(QuerySpec { since: Some(T0), until: Some(T0 + 200), ..base.clone() }));
            ops.push(Op::Query(QuerySpec { tags: vec![('t', vec!["g1".into()])], limit: Some(600), ..base.clone() }));
            ops.push(Op::Query(QuerySpec { ids: ids.iter().copied().step_by(3).collect(), ..base.clone() }));
            if prop != "C16" && g.rng.chance(1, 2) {
                let _ = g.model.apply_vanish(&pk);
                ops.push(Op::Vanish(pk));
            } else {
                ops.push(Op::Rebuild);
            }
            ops.push(Op::Query(QuerySpec { authors: vec![pk], ..base.clone() }));
        }
        4 => {
            // hundreds of versions at one address: ascending, then stale ones
            let n = *g.rng.pick(&[255usize, 256, 257, 400]);
            let kind = *g.rng.pick(&[0u16, 10000, 30000]);
            let tags = if kind == 30000 { vec![vec!["d".to_string(), "many".to_string()]] } else { vec![] };
            if kind == 30000 && g.rng.chance(1, 2) {
                // dozens of the key's events of OTHER kinds carry the same identifier, all of them
                // newer than anything at the address
                for k in 0..g.rng.range(64, 90) {
                    let e = EvSpec { id: g.rng.bytes32(), pk, kind: 30001 + k as u16, at: T0 + 5000 + k, tags: tags.clone(), content: vec![k as u8] };
                    push_store(&mut g, &mut ops, e);
                }
            }
            for i in 0..n {
                let e = EvSpec { id: g.rng.bytes32(), pk, kind, at: T0 + i as u64, tags: tags.clone(), content: vec![(i & 0xff) as u8, (i >> 8) as u8] };
                push_store(&mut g, &mut ops, e);
            }
            for back in [1u64, 2, 255, 256] {
                let e = EvSpec { id: g.rng.bytes32(), pk, kind, at: (T0 + n as u64).saturating_sub(1 + back), tags: tags.clone(), content: vec![9] };
                push_store(&mut g, &mut ops, e);
            }
            ops.push(Op::Query(QuerySpec { authors: vec![pk], kinds: vec![kind], ..base.clone() }));
            ops.push(Op::Reopen(ReopenKind::Drop));
        }
        5 => {
            // hundreds of deletion requests, each naming one own event; then resubmissions
            let n = *g.rng.pick(&[255usize, 256, 300, 1025, 1100]);
            let mut victims = vec![];
            for i in 0..n {
                let e = EvSpec { id: g.rng.bytes32(), pk, kind: 1, at: T0 + 1, tags: vec![], content: vec![(i & 0xff) as u8, (i >> 8) as u8] };
                victims.push(e.clone());
                push_store(&mut g, &mut ops, e);
            }
            for v in &victims {
                let d = EvSpec { id: g.rng.bytes32(), pk, kind: 5, at: T0 + 2, tags: vec![vec!["e".into(), hex(&v.id)]], content: vec![] };
                push_store(&mut g, &mut ops, d);
            }
            for v in [&victims[0], &victims[n / 2], &victims[n - 1]] {
                push_store(&mut g, &mut ops, (*v).clone());
            }
            ops.push(Op::Rebuild);
            for v in [&victims[1], &victims[n - 2]] {
                push_store(&mut g, &mut ops, (*v).clone());
            }
        }
        9 => {
            // one deletion request with dozens to hundreds of effective targets, then one it may
            // not name (the whole request is refused and nothing of it stays), then the same
            // request without the foreign target
            let n = *g.rng.pick(&[31usize, 32, 33, 34, 64, 65, 127, 128, 129, 255, 256, 257, 600]);
            let mut victims = vec![];
            for i in 0..n {
                let e = EvSpec { id: g.rng.bytes32(), pk, kind: 1, at: T0 + 1, tags: vec![], content: vec![(i & 0xff) as u8, (i >> 8) as u8] };
                victims.push(e.clone());
                push_store(&mut g, &mut ops, e);
            }
            let foreign = EvSpec { id: g.rng.bytes32(), pk: other, kind: 1, at: T0 + 1, tags: vec![], content: vec![0xfe] };
            push_store(&mut g, &mut ops, foreign.clone());
            let mut tags: Vec<Vec<String>> = victims.iter().map(|v| vec!["e".to_string(), hex(&v.id)]).collect();
            let own_only = tags.clone();
            tags.push(vec!["e".into(), hex(&foreign.id)]);
            let bad = EvSpec { id: g.rng.bytes32(), pk, kind: 5, at: T0 + 2, tags, content: vec![] };
            push_store(&mut g, &mut ops, bad);
            // the targets are still there: resubmitting one is a duplicate, not a deleted event
            push_store(&mut g, &mut ops, victims[0].clone());
            push_store(&mut g, &mut ops, victims[n - 1].clone());
            ops.push(Op::Query(QuerySpec { authors: vec![pk], ..base.clone() }));
            let good = EvSpec { id: g.rng.bytes32(), pk, kind: 5, at: T0 + 2, tags: own_only, content: vec![] };
            push_store(&mut g, &mut ops, good);
            push_store(&mut g, &mut ops, victims[n / 2].clone());
            ops.push(Op::Reopen(ReopenKind::Close));
        }
        10 => {
            // offsets around 2^31 and 2^32: versions, address deletions and removals whose targets
            // lie beyond the boundary while other events sit at the same offset modulo 2^32
            let boundary: u64 = *g.rng.pick(&[1u64 << 32, 1 << 32, 1 << 31, 65535 * 2048, 65536 * 2048]);
            // somebody else's note, whose offset the key's first event beyond the boundary will
            // share modulo the boundary (when the boundary is a power of two)
            let note = EvSpec { id: g.rng.bytes32(), pk: other, kind: 1, at: T0 + 1, tags: vec![], content: vec![0xb0; 33] };
            let note_id = note.id;
            push_store(&mut g, &mut ops, note);
            let v1 = EvSpec { id: g.rng.bytes32(), pk, kind: 10002, at: T0 + 1, tags: vec![], content: vec![1; 20] };
            let w1 = EvSpec { id: g.rng.bytes32(), pk, kind: 30002, at: T0 + 1, tags: vec![vec!["d".into(), "far".into()]], content: vec![1; 20] };
            push_store(&mut g, &mut ops, v1);
            push_store(&mut g, &mut ops, w1);
            if boundary.is_power_of_two() && g.rng.chance(2, 3) {
                ops.push(Op::InflateOnto(boundary, note_id));
                // lands exactly `boundary` above the note; a deletion of its address follows
                let w2 = EvSpec { id: g.rng.bytes32(), pk, kind: 30002, at: T0 + 2, tags: vec![vec!["d".into(), "far".into()]], content: vec![0xb0; 33] };
                push_store(&mut g, &mut ops, w2);
                let del = EvSpec { id: g.rng.bytes32(), pk, kind: 5, at: T0 + 3, tags: vec![vec!["a".into(), format!("30002:{}:far", hex(&pk))]], content: vec![] };
                push_store(&mut g, &mut ops, del);
            } else {
                ops.push(Op::Inflate(boundary - g.rng.range(0, 700)));
            }
            for k in 0..g.rng.range(2, 6) {
                let e = EvSpec { id: g.rng.bytes32(), pk: other, kind: 1, at: T0 + 2, tags: vec![vec!["t".into(), "far".into()]], content: vec![k as u8; 200] };
                push_store(&mut g, &mut ops, e);
            }
            // the holders move beyond the boundary, then are displaced / deleted there
            let mut last = None;
            for k in 2..5u64 {
                let v = EvSpec { id: g.rng.bytes32(), pk, kind: 10002, at: T0 + k, tags: vec![], content: vec![k as u8; 20] };
                let w = EvSpec { id: g.rng.bytes32(), pk, kind: 30002, at: T0 + k, tags: vec![vec!["d".into(), "far".into()]], content: vec![k as u8; 20] };
                last = Some(v.id);
                push_store(&mut g, &mut ops, v);
                push_store(&mut g, &mut ops, w);
            }
            let del = EvSpec { id: g.rng.bytes32(), pk, kind: 5, at: T0 + 9, tags: vec![vec!["a".into(), format!("30002:{}:far", hex(&pk))]], content: vec![] };
            push_store(&mut g, &mut ops, del);
            if let Some(id) = last {
                let _ = g.model.apply_remove(&id);
                ops.push(Op::Remove(id));
            }
            ops.push(Op::Query(QuerySpec { tags: vec![('t', vec!["far".into()])], ..base.clone() }));
            ops.push(Op::Query(QuerySpec { authors: vec![pk, other], ..base.clone() }));
            ops.push(Op::Reopen(ReopenKind::Close));
        }
        6 => {
            // dozens of restarts of every kind with a store between any two, a dozen rebuilds
            let n = g.rng.range(30, 50);
            for i in 0..n {
                let e = g.new_event();
                push_store(&mut g, &mut ops, e);
                ops.push(match (i % 7, g.rng.below(3)) {
                    (6, _) => Op::Rebuild,
                    (_, 0) => Op::Reopen(ReopenKind::Drop),
                    (_, 1) => Op::Reopen(ReopenKind::Close),
                    _ => Op::Reopen(ReopenKind::Copy),
                });
            }
        }
        _ => {
            // filters with hundreds of authors / kinds / ids
            for i in 0..40u64 {
                let e = EvSpec { id: g.rng.bytes32(), pk: if i % 2 == 0 { pk } else { other }, kind: (i % 4) as u16 + 1, at: T0 + i, tags: vec![], content: vec![i as u8] };
                push_store(&mut g, &mut ops, e);
            }
            let n = *g.rng.pick(&[255usize, 256, 300, 1000]);
            let mut authors: Vec<B32> = (0..n).map(|_| g.rng.bytes32()).collect();
            authors.push(pk);
            let mut kinds: Vec<u16> = (0..n as u32).map(|k| (2000 + k) as u16).collect();
            kinds.push(2);
            let strict = QuerySpec::default();
            for k in [1usize, 2, 31, 32, 33, 40, 64, 65, 255, 256] {
                if k <= authors.len() {
                    let mut a: Vec<B32> = authors[..k - 1].to_vec();
                    a.push(pk);
                    ops.push(Op::Query(QuerySpec { authors: a, ..strict.clone() }));
                }
            }
            ops.push(Op::Query(QuerySpec { authors: authors.clone(), ..strict.clone() }));
            ops.push(Op::Query(QuerySpec { authors: authors.clone(), kinds: kinds.clone(), ..strict.clone() }));
            ops.push(Op::Query(QuerySpec { authors: authors.clone(), ..base.clone() }));
            ops.push(Op::Query(QuerySpec { kinds: kinds.clone(), ..base.clone() }));
            ops.push(Op::Query(QuerySpec { authors, kinds, ..base.clone() }));
            let mut ids: Vec<B32> = (0..n).map(|_| g.rng.bytes32()).collect();
            ids.extend(g.model.retrievable.iter().copied().take(5));
            ops.push(Op::Query(QuerySpec { ids, ..base.clone() }));
        }
    }
    ops.push(Op::Query(base));
    Trace {
        cfg: Cfg { prop: prop.to_string(), mode: Mode::Seq, seed, blocker: false, extra_tables: 0, obs_level: 9, drain: false },
        ops,
        threads: vec![],
        schedule: vec![],
        expect: None,
    }
}

/// helper of `scale_trace`: push a value-less tag and return the empty marker
fn return_valueless(tags: &mut Vec<Vec<String>>, letter: &str) -> String {
    tags.push(vec![letter.to_string()]);
    String::new()
}

pub fn generate(prop: &str, seed: u64) -> Trace {
    if matches!(prop, "C18" | "C05" | "C17") && seed % 64 == 0 {
        return bulk_trace(prop, seed);
    }
    if prop == "C13" && seed % 16 == 9 {
        return bulk_trace(prop, seed);
    }
    if !matches!(prop, "C12" | "C13") && seed % 64 == 3 {
        return scale_trace(prop, seed);
    }
    if matches!(prop, "C04" | "C15") && seed % 32 == 1 {
        return long_session_trace(prop, seed);
    }
    if matches!(prop, "C09" | "C10" | "C11" | "C16") && seed % 16 == 5 {
        return pair_duel_trace(prop, seed);
    }
    if matches!(prop, "C12" | "C10" | "C09") && seed % 32 == 7 {
        return long_walk_refusal_trace(prop, seed);
    }
    let mut p = profile(prop);
    if thorough() {
        p.max_ops = p.max_ops * 2;
        p.min_ops = p.min_ops + p.min_ops / 2;
    }
    Gen::new(seed, p).trace(seed)
}
