//! The handler installed into pocket_db::verif for the sequential modes: records the
//! points an operation crosses, takes durable-state snapshots at them (= what a SIGKILL at
//! that instant leaves behind: MAP_SHARED stores and completed pwrites are in the page
//! cache, nothing else survives), and arms fail-points.

use std::fs;
use std::path::{Path, PathBuf};
use std::sync::{Arc, Mutex};

#[derive(Default)]
pub struct HookState {
    pub recording: bool,
    pub points: Vec<&'static str>,
    /// snapshot at every point while recording
    pub snap_all: bool,
    pub src_dir: PathBuf,
    pub snap_root: PathBuf,
    pub snap_counter: u64,
    /// (index of the point within the op, point name, directory holding the snapshot)
    pub snaps: Vec<(usize, &'static str, PathBuf)>,
    /// fail the k-th fail() call made while recording
    pub fail_k: Option<u32>,
    pub fail_calls: u32,
    pub fail_names: Vec<&'static str>,
    pub fired: Option<&'static str>,
    /// cap on snapshots per op
    pub snap_cap: usize,
    /// if set, the process kills itself at the k-th point (fidelity probe, forked child only)
    pub kill_at: Option<usize>,
    /// number of points crossed while recording since the handler was created
    pub global_points: u64,
    /// fidelity probe: SIGKILL this process when the global point counter reaches this value
    pub kill_at_global: Option<u64>,
    /// fidelity probe: copy the store files into `fid_dir` at this global point
    pub snap_at_global: Option<u64>,
    pub fid_dir: PathBuf,
    /// where the store lived when the fidelity snapshot was taken, and the point's name
    pub fid_taken: Option<(PathBuf, &'static str)>,
}

pub struct SeqHooks {
    pub st: Mutex<HookState>,
}

pub fn copy_store_files(src: &Path, dst: &Path) -> std::io::Result<()> {
    fs::create_dir_all(dst)?;
    // everything a killed process leaves in the directory: the event map, the index environment,
    // and whatever other file the code under test may have created there (a staging file, a
    // journal); the backups a rebuild left (`*.bak`) take no part in a later open and are skipped
    for ent in fs::read_dir(src)? {
        let ent = ent?;
        let name = ent.file_name();
        let name_s = name.to_string_lossy().to_string();
        if name_s.ends_with(".bak") {
            continue;
        }
        let p = ent.path();
        let ft = ent.file_type()?;
        if ft.is_file() {
            let _ = fs::copy(&p, dst.join(&name))?;
        } else if ft.is_dir() {
            let sub = dst.join(&name);
            fs::create_dir_all(&sub)?;
            for e2 in fs::read_dir(&p)? {
                let e2 = e2?;
                if e2.file_type()?.is_file() {
                    let _ = fs::copy(e2.path(), sub.join(e2.file_name()))?;
                }
            }
        }
    }
    Ok(())
}

impl pocket_db::verif::Hooks for SeqHooks {
    fn point(&self, name: &'static str) {
        // `y:` points are places where another thread may run (concurrent mode); they lie between
        // two engine calls of one transaction, where a kill leaves the same files as at the
        // neighbouring kill points
        if name.starts_with("y:") {
            return;
        }
        let mut st = self.st.lock().unwrap();
        if !st.recording {
            return;
        }
        let idx = st.points.len();
        st.points.push(name);
        let g = st.global_points;
        st.global_points += 1;
        if st.kill_at_global == Some(g) {
            unsafe {
                let _ = libc::kill(libc::getpid(), libc::SIGKILL);
            }
        }
        if st.snap_at_global == Some(g) {
            let dst = st.fid_dir.clone();
            if copy_store_files(&st.src_dir, &dst).is_ok() {
                st.fid_taken = Some((st.src_dir.clone(), name));
            }
        }
        if st.kill_at == Some(idx) {
            unsafe {
                let _ = libc::kill(libc::getpid(), libc::SIGKILL);
            }
        }
        // (a store that grows the map dozens of times must not spend the whole budget inside the
        // growth loop: the instants around the index writes and the commit come last)
        let growth = matches!(name, "es:after_set_len" | "es:after_resize" | "es:after_len_store");
        let growth_taken = if growth { st.snaps.iter().filter(|(_, n, _)| matches!(*n, "es:after_set_len" | "es:after_resize" | "es:after_len_store")).count() } else { 0 };
        if st.snap_all && st.snaps.len() < st.snap_cap && (!growth || growth_taken < 18) {
            st.snap_counter += 1;
            let dst = st.snap_root.join(format!("snap-{}", st.snap_counter));
            if copy_store_files(&st.src_dir, &dst).is_ok() {
                st.snaps.push((idx, name, dst));
            }
        }
    }

    fn fail(&self, name: &'static str) -> bool {
        let mut st = self.st.lock().unwrap();
        if !st.recording {
            return false;
        }
        let c = st.fail_calls;
        st.fail_calls += 1;
        st.fail_names.push(name);
        if st.fail_k == Some(c) {
            st.fired = Some(name);
            true
        } else {
            false
        }
    }

    fn writer_enter(&self) {}
    fn writer_exit(&self) {}
}

pub fn new_seq_hooks() -> Arc<SeqHooks> {
    Arc::new(SeqHooks { st: Mutex::new(HookState { snap_cap: 64, ..Default::default() }) })
}
