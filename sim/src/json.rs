//! A minimal JSON writer (the harness has no dependencies beyond the repository's own).

use std::collections::BTreeMap;

#[derive(Clone, Debug)]
pub enum J {
    Null,
    Bool(bool),
    Int(i128),
    Num(f64),
    Str(String),
    Arr(Vec<J>),
    Obj(Vec<(String, J)>),
}

impl J {
    pub fn s(x: &str) -> J {
        J::Str(x.to_string())
    }
    pub fn u(x: u64) -> J {
        J::Int(x as i128)
    }
    pub fn obj(v: Vec<(&str, J)>) -> J {
        J::Obj(v.into_iter().map(|(k, v)| (k.to_string(), v)).collect())
    }
    pub fn map(m: &BTreeMap<String, u64>) -> J {
        J::Obj(m.iter().map(|(k, v)| (k.clone(), J::u(*v))).collect())
    }
    pub fn strs(v: &[String]) -> J {
        J::Arr(v.iter().map(|s| J::Str(s.clone())).collect())
    }

    pub fn write(&self, out: &mut String, indent: usize) {
        let pad = |out: &mut String, n: usize| {
            for _ in 0..n {
                out.push(' ');
            }
        };
        match self {
            J::Null => out.push_str("null"),
            J::Bool(b) => out.push_str(if *b { "true" } else { "false" }),
            J::Int(i) => out.push_str(&i.to_string()),
            J::Num(f) => {
                if f.is_finite() {
                    out.push_str(&format!("{:.3}", f));
                } else {
                    out.push_str("0")
                }
            }
            J::Str(s) => {
                out.push('"');
                for c in s.chars() {
                    match c {
                        '"' => out.push_str("\\\""),
                        '\\' => out.push_str("\\\\"),
                        '\n' => out.push_str("\\n"),
                        '\r' => out.push_str("\\r"),
                        '\t' => out.push_str("\\t"),
                        c if (c as u32) < 0x20 => out.push_str(&format!("\\u{:04x}", c as u32)),
                        c => out.push(c),
                    }
                }
                out.push('"');
            }
            J::Arr(v) => {
                if v.is_empty() {
                    out.push_str("[]");
                    return;
                }
                out.push_str("[\n");
                for (i, x) in v.iter().enumerate() {
                    pad(out, indent + 1);
                    x.write(out, indent + 1);
                    if i + 1 < v.len() {
                        out.push(',');
                    }
                    out.push('\n');
                }
                pad(out, indent);
                out.push(']');
            }
            J::Obj(v) => {
                if v.is_empty() {
                    out.push_str("{}");
                    return;
                }
                out.push_str("{\n");
                for (i, (k, x)) in v.iter().enumerate() {
                    pad(out, indent + 1);
                    J::Str(k.clone()).write(out, 0);
                    out.push_str(": ");
                    x.write(out, indent + 1);
                    if i + 1 < v.len() {
                        out.push(',');
                    }
                    out.push('\n');
                }
                pad(out, indent);
                out.push('}');
            }
        }
    }

    pub fn to_string_pretty(&self) -> String {
        let mut s = String::new();
        self.write(&mut s, 0);
        s.push('\n');
        s
    }
}
