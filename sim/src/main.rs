//! pocket-sim: deterministic simulation with fault injection for mikedilger/pocket.
//!
//!   pocket-sim check --prop C04 --tier quick       run a batch, write evidence, exit 0/1/2
//!   pocket-sim replay FILE [--verbose]               re-run a trace file exactly (no PRNG)
//!   pocket-sim gen --prop C04 --run-seed N           print the trace a run seed generates
//!   pocket-sim selftest-determinism --prop C04 --runs N
//!
//! Exit codes: 0 property held on everything explored; 1 violation (a line
//! `VIOLATION property=<id> replay=<path>` is printed); 2 harness error.

mod check;
mod conc;
mod exec;
mod fidelity;
mod gen;
mod hooks;
mod json;
mod minimize;
mod model;
mod obs;
mod real;
mod rng;
mod runner;
mod spec;

use std::collections::BTreeMap;

pub fn verif_root() -> String {
    std::env::var("VERIF_ROOT").unwrap_or_else(|_| "/verif".to_string())
}

fn args_map(args: &[String]) -> (Vec<String>, BTreeMap<String, String>) {
    let mut pos = vec![];
    let mut m = BTreeMap::new();
    let mut i = 0;
    while i < args.len() {
        if let Some(k) = args[i].strip_prefix("--") {
            if i + 1 < args.len() && !args[i + 1].starts_with("--") {
                let _ = m.insert(k.to_string(), args[i + 1].clone());
                i += 2;
            } else {
                let _ = m.insert(k.to_string(), "1".to_string());
                i += 1;
            }
        } else {
            pos.push(args[i].clone());
            i += 1;
        }
    }
    (pos, m)
}

fn main() {
    real::install_panic_hook();
    // the file-size-limit fault (RLIMIT_FSIZE) must surface as EFBIG, not as a fatal signal
    unsafe {
        let _ = libc::signal(libc::SIGXFSZ, libc::SIG_IGN);
    }
    let args: Vec<String> = std::env::args().skip(1).collect();
    if args.is_empty() {
        eprintln!("usage: pocket-sim check|replay|gen|worker|minimize|selftest-determinism ...");
        std::process::exit(2);
    }
    let (pos, opts) = args_map(&args[1..]);
    let code = match args[0].as_str() {
        "check" => check::cmd_check(&opts),
        "worker" => check::cmd_worker(&opts),
        "replay" => check::cmd_replay(&pos, &opts),
        "gen" => check::cmd_gen(&opts),
        "minimize" => check::cmd_minimize(&pos, &opts),
        "selftest-determinism" => check::cmd_selftest(&opts),
        "fidelity" => check::cmd_fidelity(&opts),
        "lock-model-probe" => {
            // never returns normally when the dead-lock is real: exit straight away
            let code = fidelity::lock_model_probe();
            println!("LOCK-MODEL-PROBE {}", if code == 7 { "deadlock-confirmed" } else { "no-deadlock" });
            runner::cleanup_scratch_root();
            std::process::exit(code);
        }
        x => {
            eprintln!("unknown command {x}");
            2
        }
    };
    runner::cleanup_scratch_root();
    std::process::exit(code);
}
