//! Trace minimisation: ddmin over the op list, then per-event simplification, keeping a
//! candidate only if the same clause of the same property still fails.

use crate::runner::run_trace;
use crate::spec::*;
use std::collections::BTreeSet;

pub struct Target {
    pub clause: String,
    pub props: Vec<String>,
}

fn still_fails(t: &Trace, target: &Target, known_open: &BTreeSet<String>, budget: &mut usize) -> bool {
    if *budget == 0 {
        return false;
    }
    *budget -= 1;
    let r = run_trace(t, known_open, false);
    match r.finding {
        Some(f) => f.clause == target.clause && f.props.iter().any(|p| target.props.iter().any(|q| q == p)),
        None => false,
    }
}

/// Modifier ops (crash/fail) stay glued to the op that follows them.
fn units(ops: &[Op]) -> Vec<Vec<Op>> {
    let mut out: Vec<Vec<Op>> = vec![];
    let mut cur: Vec<Op> = vec![];
    for op in ops {
        cur.push(op.clone());
        if !op.is_modifier() {
            out.push(std::mem::take(&mut cur));
        }
    }
    if !cur.is_empty() {
        out.push(cur);
    }
    out
}

fn flatten(u: &[Vec<Op>]) -> Vec<Op> {
    u.iter().flatten().cloned().collect()
}

pub fn minimize(trace: &Trace, target: &Target, known_open: &BTreeSet<String>) -> Trace {
    let mut budget: usize = 1500;
    let mut best = trace.clone();
    if best.cfg.mode == Mode::Conc {
        return crate::conc::minimize_conc(trace, target, known_open);
    }
    // 0. cut everything after the failing op
    {
        let r = run_trace(&best, known_open, false);
        if let Some(f) = r.finding {
            if f.op_index + 1 < best.ops.len() {
                let mut t = best.clone();
                t.ops.truncate(f.op_index + 1);
                if still_fails(&t, target, known_open, &mut budget) {
                    best = t;
                }
            }
        }
    }
    // 1. ddmin on units
    let mut us = units(&best.ops);
    let mut n = 2usize;
    while us.len() >= 2 && budget > 0 {
        let chunk = (us.len() + n - 1) / n;
        let mut reduced = false;
        let mut start = 0;
        while start < us.len() {
            let end = (start + chunk).min(us.len());
            let mut cand: Vec<Vec<Op>> = vec![];
            cand.extend_from_slice(&us[..start]);
            cand.extend_from_slice(&us[end..]);
            let mut t = best.clone();
            t.ops = flatten(&cand);
            if !cand.is_empty() && still_fails(&t, target, known_open, &mut budget) {
                us = cand;
                best = t;
                n = n.saturating_sub(1).max(2);
                reduced = true;
                break;
            }
            start = end;
        }
        if !reduced {
            if chunk == 1 {
                break;
            }
            n = (n * 2).min(us.len());
        }
    }
    // 2. drop modifiers individually, simplify config
    for i in (0..best.ops.len()).rev() {
        if best.ops[i].is_modifier() {
            let mut t = best.clone();
            let _ = t.ops.remove(i);
            if still_fails(&t, target, known_open, &mut budget) {
                best = t;
            }
        }
    }
    if best.cfg.blocker {
        let mut t = best.clone();
        t.cfg.blocker = false;
        if still_fails(&t, target, known_open, &mut budget) {
            best = t;
        }
    }
    // 3. per-event simplification, applied consistently to every op carrying the same id
    let ids: Vec<B32> = {
        let mut s = BTreeSet::new();
        for op in &best.ops {
            if let Op::Store(e) = op {
                let _ = s.insert(e.id);
            }
        }
        s.into_iter().collect()
    };
    for id in ids {
        // empty content
        let mut t = best.clone();
        let mut changed = false;
        for op in t.ops.iter_mut() {
            if let Op::Store(e) = op {
                if e.id == id && !e.content.is_empty() {
                    e.content.clear();
                    changed = true;
                }
            }
        }
        if changed && still_fails(&t, target, known_open, &mut budget) {
            best = t;
        }
        // drop tags one at a time (from the back)
        let ntags = best.ops.iter().find_map(|op| if let Op::Store(e) = op { if e.id == id { Some(e.tags.len()) } else { None } } else { None }).unwrap_or(0);
        for ti in (0..ntags).rev() {
            let mut t = best.clone();
            let mut ok = false;
            for op in t.ops.iter_mut() {
                if let Op::Store(e) = op {
                    if e.id == id && ti < e.tags.len() {
                        // never remove the address-defining first d tag of a parameterised event
                        let is_first_d = is_param(e.kind) && e.tags.iter().position(|x| x.first().map(|s| s == "d").unwrap_or(false)) == Some(ti);
                        if !is_first_d {
                            let _ = e.tags.remove(ti);
                            ok = true;
                        }
                    }
                }
            }
            if ok && still_fails(&t, target, known_open, &mut budget) {
                best = t;
            }
        }
    }
    // 4. queries: drop screening, allowances to permissive
    for i in 0..best.ops.len() {
        if let Op::Query(q) = &best.ops[i] {
            let mut q2 = q.clone();
            q2.mismatch_pct = 0;
            q2.redact_pct = 0;
            q2.screen_seed = 0;
            if q2 != *q {
                let mut t = best.clone();
                t.ops[i] = Op::Query(q2);
                if still_fails(&t, target, known_open, &mut budget) {
                    best = t;
                }
            }
        }
    }
    best
}
