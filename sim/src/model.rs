//! The reference model: an executable reading of the property statements and of
//! NIP-01 / NIP-09, written over the harness's own structured events. It never looks at
//! bytes produced by pocket-types accessors.

use crate::spec::*;
use std::collections::{BTreeMap, BTreeSet};

#[derive(Clone, Copy, PartialEq, Eq, PartialOrd, Ord, Debug)]
pub enum Refusal {
    Duplicate,
    Deleted,
    Replaced,
    InvalidDelete,
}

/// What the model allows a store call to do
#[derive(Clone, Debug)]
pub struct StoreExpect {
    /// refusal reasons that apply (if non-empty the call must fail with one of them)
    pub refusals: BTreeSet<Refusal>,
    /// same created_at as the holder of its address: acceptance and `Replaced` both allowed
    pub tie: bool,
    /// the request names a malformed target: ignoring the tag or refusing atomically are both allowed
    pub malformed: bool,
    /// Deleted applies only because of a marker put there by a request naming a foreign target
    pub foreign_targets: Vec<String>,
    /// the request names an own address whose marker key (kind 2 + author 32 + length 1 + the
    /// identifier in full) exceeds LMDB's 511-byte key limit: the engine may refuse the put, and
    /// the call may then fail with that error - a failure like any other (nothing changes)
    pub engine_refusal: bool,
}

impl StoreExpect {
    pub fn must_fail(&self) -> bool {
        !self.refusals.is_empty()
    }
}

/// What a store changed, for attribution of later mismatches
#[derive(Clone, Debug, Default)]
pub struct Effects {
    pub removed: Vec<B32>,
    pub marked_ids: Vec<B32>,
    pub marked_addrs: Vec<AddrKey>,
}

#[derive(Clone, Debug, Default)]
pub struct Model {
    /// every event ever submitted, by id
    pub events: BTreeMap<B32, EvSpec>,
    pub retrievable: BTreeSet<B32>,
    pub deleted_ids: BTreeSet<B32>,
    pub deleted_addrs: BTreeMap<AddrKey, u64>,
    /// ids named by anything (targets of e tags, removes) that are not known events
    pub named_ids: BTreeSet<B32>,
    /// every address named anywhere (events' own addresses, a-tag targets, probes)
    pub addr_universe: BTreeSet<AddrKey>,
    /// authors seen
    pub authors: BTreeSet<B32>,
    /// offsets returned by successful stores into the current event file: offset -> (id, len)
    pub offsets: BTreeMap<u64, (B32, usize)>,
    pub extra: BTreeMap<u8, BTreeMap<Vec<u8>, Vec<u8>>>,
    pub clock: Option<u64>,
    /// ids that were explicitly removed / vanished at some point (attribution only)
    pub ever_removed: BTreeSet<B32>,
    /// highest marker time ever observed per address (monotonicity check, survives everything)
    pub marker_high: BTreeMap<AddrKey, u64>,
    /// An `a` target that names a plain replaceable kind WITH an identifier ("10002:<key>:foo") is
    /// an odd target: plain replaceable addresses have no identifier. Two consistent readings
    /// exist - the tag names the address (key, kind), identifier dropped (the default here), or
    /// the tag is ignored altogether. The executor sets this when the implementation under test
    /// shows the second reading; anything in between (events removed but no marker that refuses
    /// them later, or a marker without the removal) is neither.
    pub odd_a_ignored: bool,
}

/// the address an `a` target stands for, and whether the target was odd (see `odd_a_ignored`)
pub fn norm_target(a: AddrKey) -> (AddrKey, bool) {
    if is_replaceable(a.kind) && !a.d.is_empty() {
        (AddrKey { kind: a.kind, pk: a.pk, d: vec![] }, true)
    } else {
        (a, false)
    }
}

impl Model {
    pub fn note_event(&mut self, e: &EvSpec) {
        if !self.events.contains_key(&e.id) {
            let _ = self.events.insert(e.id, e.clone());
        }
        let _ = self.authors.insert(e.pk);
        if let Some(a) = e.addr() {
            let _ = self.addr_universe.insert(a);
        }
        if e.kind == 5 {
            for t in &e.tags {
                if t.len() >= 2 {
                    if t[0] == "e" {
                        if let Some(id) = parse_e_target(&t[1]) {
                            if !self.events.contains_key(&id) {
                                let _ = self.named_ids.insert(id);
                            }
                        }
                    } else if t[0] == "a" {
                        if let Some(a) = parse_a_target(&t[1]) {
                            let _ = self.addr_universe.insert(a.clone());
                            let _ = self.addr_universe.insert(norm_target(a).0);
                        }
                    }
                }
            }
        }
    }

    pub fn holders(&self, a: &AddrKey) -> Vec<&EvSpec> {
        self.retrievable
            .iter()
            .filter_map(|id| self.events.get(id))
            .filter(|e| e.addr().as_ref() == Some(a))
            .collect()
    }

    /// events a deletion of address `a` at time `t` covers (NIP-09): same author, kind and
    /// (for parameterised kinds) d value, created_at <= t
    fn covered_by_addr(&self, a: &AddrKey, t: u64) -> Vec<B32> {
        self.retrievable
            .iter()
            .filter_map(|id| self.events.get(id))
            .filter(|e| {
                e.pk == a.pk
                    && e.kind == a.kind
                    && e.at <= t
                    && if is_replaceable(a.kind) {
                        true
                    } else if is_param(a.kind) {
                        e.d().map(|d| d.as_bytes()) == Some(a.d.as_slice())
                    } else {
                        false
                    }
            })
            .map(|e| e.id)
            .collect()
    }

    pub fn store_expect(&self, e: &EvSpec) -> StoreExpect {
        let mut refusals = BTreeSet::new();
        let mut tie = false;
        let mut malformed = false;
        let mut foreign_targets = vec![];
        let mut engine_refusal = false;
        if self.retrievable.contains(&e.id) {
            let _ = refusals.insert(Refusal::Duplicate);
        }
        if self.deleted_ids.contains(&e.id) {
            let _ = refusals.insert(Refusal::Deleted);
        }
        if let Some(a) = e.addr() {
            if let Some(t) = self.deleted_addrs.get(&a) {
                if e.at <= *t {
                    let _ = refusals.insert(Refusal::Deleted);
                }
            }
            for h in self.holders(&a) {
                if h.id == e.id {
                    continue;
                }
                if h.at > e.at {
                    let _ = refusals.insert(Refusal::Replaced);
                } else if h.at == e.at {
                    tie = true;
                }
            }
        }
        if e.kind == 5 {
            for t in &e.tags {
                if t.len() < 2 {
                    continue;
                }
                if t[0] == "e" {
                    match parse_e_target(&t[1]) {
                        // a request naming itself: a target that cannot be meant (ignored, or the
                        // request refused)
                        Some(id) if id == e.id => malformed = true,
                        Some(id) => {
                            if self.retrievable.contains(&id) && self.events[&id].pk != e.pk {
                                let _ = refusals.insert(Refusal::InvalidDelete);
                                foreign_targets.push(format!("e:{}", short(&id)));
                            }
                        }
                        None => malformed = true,
                    }
                } else if t[0] == "a" {
                    match parse_a_target(&t[1]) {
                        Some(a) => {
                            if a.pk != e.pk {
                                let _ = refusals.insert(Refusal::InvalidDelete);
                                foreign_targets.push(format!("a:{}", a.label()));
                            } else if 35 + a.d.len() > 511 {
                                engine_refusal = true;
                            }
                        }
                        None => malformed = true,
                    }
                }
            }
        }
        StoreExpect { refusals, tie, malformed, foreign_targets, engine_refusal }
    }

    /// Apply a successful store. `skip_foreign`: foreign targets of a deletion request are
    /// treated as inert (used when the implementation accepted a request the model would
    /// have let it refuse).
    pub fn apply_store(&mut self, e: &EvSpec, offset: u64, len: usize) -> Effects {
        let mut fx = Effects::default();
        self.note_event(e);
        // displacement: strictly older holders (and equal-time ones, since the store was accepted)
        if let Some(a) = e.addr() {
            let old: Vec<B32> = self.holders(&a).iter().filter(|h| h.at <= e.at && h.id != e.id).map(|h| h.id).collect();
            for id in old {
                let _ = self.retrievable.remove(&id);
                fx.removed.push(id);
            }
        }
        let _ = self.offsets.insert(offset, (e.id, len));
        if !is_ephemeral(e.kind) {
            let _ = self.retrievable.insert(e.id);
        }
        if e.kind == 5 {
            for t in &e.tags {
                if t.len() < 2 {
                    continue;
                }
                if t[0] == "e" {
                    if let Some(id) = parse_e_target(&t[1]) {
                        if id == e.id {
                            // a request naming itself: the target is ignored
                            continue;
                        }
                        if self.retrievable.contains(&id) {
                            if self.events[&id].pk != e.pk {
                                continue; // foreign: inert
                            }
                            let _ = self.retrievable.remove(&id);
                            fx.removed.push(id);
                        }
                        if self.deleted_ids.insert(id) {
                            fx.marked_ids.push(id);
                        }
                    }
                } else if t[0] == "a" {
                    if let Some(a) = parse_a_target(&t[1]) {
                        if a.pk != e.pk {
                            continue; // foreign: inert
                        }
                        let (a, odd) = norm_target(a);
                        if odd && self.odd_a_ignored {
                            continue;
                        }
                        let cur = self.deleted_addrs.get(&a).copied();
                        let new = cur.map_or(e.at, |c| c.max(e.at));
                        if cur != Some(new) {
                            fx.marked_addrs.push(a.clone());
                        }
                        let _ = self.deleted_addrs.insert(a.clone(), new);
                        let hi = self.marker_high.entry(a.clone()).or_insert(new);
                        if new > *hi {
                            *hi = new;
                        }
                        for id in self.covered_by_addr(&a, e.at) {
                            if id == e.id {
                                continue;
                            }
                            let _ = self.retrievable.remove(&id);
                            fx.removed.push(id);
                        }
                    }
                }
            }
        }
        fx
    }

    pub fn apply_remove(&mut self, id: &B32) -> Effects {
        let mut fx = Effects::default();
        if !self.events.contains_key(id) {
            let _ = self.named_ids.insert(*id);
        }
        if self.retrievable.remove(id) {
            fx.removed.push(*id);
            let _ = self.ever_removed.insert(*id);
        }
        fx
    }

    /// the ids a vanish of `pk` targets
    pub fn vanish_targets(&self, pk: &B32) -> Vec<B32> {
        let pkhex = hex(pk);
        self.retrievable
            .iter()
            .filter_map(|id| self.events.get(id))
            .filter(|e| {
                e.pk == *pk
                    || (e.kind == 1059 && e.tags.iter().any(|t| t.len() >= 2 && t[0] == "p" && t[1] == pkhex))
            })
            .map(|e| e.id)
            .collect()
    }

    pub fn apply_vanish(&mut self, pk: &B32) -> Effects {
        let mut fx = Effects::default();
        let _ = self.authors.insert(*pk);
        for id in self.vanish_targets(pk) {
            let _ = self.retrievable.remove(&id);
            let _ = self.ever_removed.insert(id);
            fx.removed.push(id);
        }
        fx
    }

    // ------------------------------------------------------------ queries

    pub fn matches(q: &QuerySpec, e: &EvSpec) -> bool {
        if !q.ids.is_empty() && !q.ids.contains(&e.id) {
            return false;
        }
        if !q.authors.is_empty() && !q.authors.contains(&e.pk) {
            return false;
        }
        if !q.kinds.is_empty() && !q.kinds.contains(&e.kind) {
            return false;
        }
        if let Some(s) = q.since {
            if e.at < s {
                return false;
            }
        }
        if let Some(u) = q.until {
            if e.at > u {
                return false;
            }
        }
        for (letter, values) in &q.tags {
            let mut buf = [0u8; 4];
            let name: &str = letter.encode_utf8(&mut buf);
            let ok = e.tags.iter().any(|t| t.len() >= 2 && t[0] == name && values.iter().any(|v| *v == t[1]));
            if !ok {
                return false;
            }
        }
        true
    }

    pub fn query_expect(&self, q: &QuerySpec) -> QueryExpect {
        let mut matching = vec![];
        let mut any_redacted = false;
        for id in &self.retrievable {
            let e = &self.events[id];
            if Self::matches(q, e) {
                match q.screen(id) {
                    Screen::Match => matching.push((e.at, *id)),
                    Screen::Mismatch => {}
                    Screen::Redacted => any_redacted = true,
                }
            }
        }
        // newest first
        matching.sort_by(|a, b| b.0.cmp(&a.0).then(a.1.cmp(&b.1)));
        let scrape = if !q.is_scrape() {
            ScrapeRule::Forbidden
        } else {
            let limit = q.limit.unwrap_or(u32::MAX);
            let since = q.since.unwrap_or(0);
            let until = q.until.unwrap_or(u64::MAX);
            match self.clock {
                None => ScrapeRule::Free, // real clock: not decided here
                Some(now) => {
                    let maxtime = until.min(now);
                    if q.allow_scrape || limit <= q.scrape_limit {
                        ScrapeRule::Forbidden
                    } else if since > maxtime {
                        // an empty window spans zero seconds: any positive seconds allowance covers
                        // it; with a zero allowance the statement does not say
                        if q.scrape_secs > 0 {
                            ScrapeRule::Forbidden
                        } else {
                            ScrapeRule::Free
                        }
                    } else if maxtime - since < q.scrape_secs {
                        ScrapeRule::Forbidden
                    } else {
                        ScrapeRule::Required
                    }
                }
            }
        };
        QueryExpect { matching, any_redacted, scrape }
    }
}

#[derive(Clone, Copy, PartialEq, Eq, Debug)]
pub enum ScrapeRule {
    /// must be refused as scraping
    Required,
    /// must not be refused
    Forbidden,
    /// either
    Free,
}

#[derive(Clone, Debug)]
pub struct QueryExpect {
    /// (created_at, id) of retrievable, matching, screen=Match events, newest first
    pub matching: Vec<(u64, B32)>,
    pub any_redacted: bool,
    pub scrape: ScrapeRule,
}

/// The observed outcome of a query
#[derive(Clone, Debug)]
pub enum QueryOutcome {
    Ok(Vec<B32>, bool),
    Scraper,
    OtherErr(String),
    Panic(String),
}

impl QueryExpect {
    /// None if the outcome is what the property allows, else a description
    pub fn check(&self, q: &QuerySpec, out: &QueryOutcome) -> Option<String> {
        match out {
            QueryOutcome::Panic(m) => Some(format!("query panicked: {m}")),
            QueryOutcome::OtherErr(m) => Some(format!("query failed: {m}")),
            QueryOutcome::Scraper => {
                if self.scrape == ScrapeRule::Forbidden {
                    Some("refused as scraping although the filter names ids/authors/tags or the allowances cover it".into())
                } else {
                    None
                }
            }
            QueryOutcome::Ok(ids, redacted) => {
                if self.scrape == ScrapeRule::Required {
                    return Some("scraping filter not covered by the allowances was served".into());
                }
                let limit = q.limit.unwrap_or(u32::MAX) as usize;
                let want = limit.min(self.matching.len());
                let at_of: BTreeMap<B32, u64> = self.matching.iter().map(|(a, i)| (*i, *a)).collect();
                let mut seen = BTreeSet::new();
                let mut got_times = vec![];
                for id in ids {
                    if !seen.insert(*id) {
                        return Some(format!("duplicate {} in result", short(id)));
                    }
                    match at_of.get(id) {
                        None => {
                            return Some(format!(
                                "returned {} which is not a retrievable, matching, unscreened event",
                                short(id)
                            ))
                        }
                        Some(a) => got_times.push(*a),
                    }
                }
                for w in got_times.windows(2) {
                    if w[0] < w[1] {
                        return Some("result not ordered newest first".into());
                    }
                }
                if ids.len() != want {
                    return Some(format!(
                        "returned {} events, expected {} (matching {}, limit {:?})",
                        ids.len(),
                        want,
                        self.matching.len(),
                        q.limit
                    ));
                }
                let want_times: Vec<u64> = self.matching.iter().take(want).map(|(a, _)| *a).collect();
                if got_times != want_times {
                    return Some(format!(
                        "not the newest {} of the matching events: got times {:?}, newest are {:?}",
                        want, got_times, want_times
                    ));
                }
                if *redacted && !self.any_redacted {
                    return Some("redacted flag set although no matching event was screened as redacted".into());
                }
                None
            }
        }
    }
}
