//! The observation function: everything a client of the store can see through its public
//! API, as a flat map probe -> value, computed once from the REAL store and once from the
//! model. Model values exist only for probes the property statements pin down.

use crate::model::{Model, QueryOutcome};
use crate::real;
use crate::rng::fnv1a;
use crate::spec::*;
use pocket_db::Store;
use pocket_types::{Id, Kind, Pubkey};
use std::collections::BTreeMap;

pub type Obs = BTreeMap<String, String>;

fn bytes_val(b: &[u8]) -> String {
    format!("{}B:{:016x}", b.len(), fnv1a(b))
}

/// The self-derived filter battery (C17): for every known event, the filters its own fields
/// satisfy. Deduplicated by text.
pub fn battery(model: &Model) -> BTreeMap<String, QuerySpec> {
    let mut out = BTreeMap::new();
    let mut add = |q: QuerySpec| {
        // keyed by the full text: abbreviated labels of different filters can collide
        let _ = out.insert(q.to_text(), q);
    };
    for e in model.events.values() {
        let base = QuerySpec::all_allowed();
        add(QuerySpec { ids: vec![e.id], ..base.clone() });
        add(QuerySpec { authors: vec![e.pk], ..base.clone() });
        add(QuerySpec { authors: vec![e.pk], kinds: vec![e.kind], ..base.clone() });
        for t in &e.tags {
            if t.len() >= 2 && t[0].len() == 1 {
                let c = t[0].chars().next().unwrap();
                if c.is_ascii_alphabetic() {
                    let tc = vec![(c, vec![t[1].clone()])];
                    add(QuerySpec { tags: tc.clone(), ..base.clone() });
                    add(QuerySpec { authors: vec![e.pk], tags: tc.clone(), ..base.clone() });
                    add(QuerySpec { kinds: vec![e.kind], tags: tc, ..base.clone() });
                }
            }
        }
        add(QuerySpec { since: Some(e.at.saturating_sub(1)), until: Some(e.at.saturating_add(1)), ..base.clone() });
    }
    out
}

pub struct ObsOpts {
    pub battery: bool,
    pub extra: bool,
    pub offsets: bool,
}

pub const EXTRA_NAMES: [&str; 3] = ["x0", "x1", "x2"];

/// Observe the real store. Never panics: a panic inside a probe becomes the probe's value.
pub fn observe_real(store: &Store, model: &Model, opts: &ObsOpts, n_extra: u8) -> Obs {
    let mut o = Obs::new();
    let ids: Vec<B32> = model.events.keys().copied().chain(model.named_ids.iter().copied()).collect();
    for id in &ids {
        let v = real::catch(|| match store.has_event(Id::from_bytes(*id)) {
            Ok(b) => b.to_string(),
            Err(e) => format!("err:{}", real::err_name(&e.inner)),
        })
        .unwrap_or_else(|p| format!("PANIC:{p}"));
        let _ = o.insert(format!("has/{}", hex(id)), v);
        let v = real::catch(|| match store.get_event_by_id(Id::from_bytes(*id)) {
            Ok(Some(e)) => bytes_val(e.as_bytes()),
            Ok(None) => "none".into(),
            Err(e) => format!("err:{}", real::err_name(&e.inner)),
        })
        .unwrap_or_else(|p| format!("PANIC:{p}"));
        let _ = o.insert(format!("byid/{}", hex(id)), v);
        let v = real::catch(|| match store.event_is_deleted(Id::from_bytes(*id)) {
            Ok(b) => b.to_string(),
            Err(e) => format!("err:{}", real::err_name(&e.inner)),
        })
        .unwrap_or_else(|p| format!("PANIC:{p}"));
        let _ = o.insert(format!("delid/{}", hex(id)), v);
    }
    if opts.offsets {
        for (off, _) in model.offsets.iter() {
            let v = real::catch(|| match store.get_event_by_offset(*off) {
                Ok(e) => bytes_val(e.as_bytes()),
                Err(e) => format!("err:{}", real::err_name(&e.inner)),
            })
            .unwrap_or_else(|p| format!("PANIC:{p}"));
            let _ = o.insert(format!("off/{:010}", off), v);
        }
    }
    for a in &model.addr_universe {
        let v = real::catch(|| match store.naddr_is_deleted_asof(&real::addr_of(a)) {
            Ok(Some(t)) => t.as_u64().to_string(),
            Ok(None) => "none".into(),
            Err(e) => format!("err:{}", real::err_name(&e.inner)),
        })
        .unwrap_or_else(|p| format!("PANIC:{p}"));
        let _ = o.insert(format!("deladdr/{}/{}/{}", a.kind, hex(&a.pk), hex(&a.d)), v);
        if is_replaceable(a.kind) && a.d.is_empty() {
            let v = real::catch(|| match store.find_replaceable_event(Pubkey::from_bytes(a.pk), Kind::from_u16(a.kind)) {
                Ok(Some(e)) => format!("{}:{}", hex(e.id().as_slice()), bytes_val(e.as_bytes())),
                Ok(None) => "none".into(),
                Err(e) => format!("err:{}", real::err_name(&e.inner)),
            })
            .unwrap_or_else(|p| format!("PANIC:{p}"));
            let _ = o.insert(format!("repl/{}/{}", a.kind, hex(&a.pk)), v);
        } else if is_param(a.kind) {
            let v = real::catch(|| match store.find_parameterized_replaceable_event(&real::addr_of(a)) {
                Ok(Some(e)) => format!("{}:{}", hex(e.id().as_slice()), bytes_val(e.as_bytes())),
                Ok(None) => "none".into(),
                Err(e) => format!("err:{}", real::err_name(&e.inner)),
            })
            .unwrap_or_else(|p| format!("PANIC:{p}"));
            let _ = o.insert(format!("prepl/{}/{}/{}", a.kind, hex(&a.pk), hex(&a.d)), v);
        }
    }
    // statistics
    match real::catch(|| store.stats()) {
        Ok(Ok(st)) => {
            let s = &st.index_stats;
            let _ = o.insert("count/general".into(), s.general_entries.to_string());
            let _ = o.insert("count/i".into(), s.i_index_entries.to_string());
            let _ = o.insert("count/ci".into(), s.ci_index_entries.to_string());
            let _ = o.insert("count/tc".into(), s.tc_index_entries.to_string());
            let _ = o.insert("count/ac".into(), s.ac_index_entries.to_string());
            let _ = o.insert("count/akc".into(), s.akc_index_entries.to_string());
            let _ = o.insert("count/atc".into(), s.atc_index_entries.to_string());
            let _ = o.insert("count/ktc".into(), s.ktc_index_entries.to_string());
            let _ = o.insert("count/del".into(), s.deleted_index_entries.to_string());
            let _ = o.insert("count/deladdr".into(), s.deleted_naddr_index_entries.to_string());
            let mut custom = s.custom_entries.clone();
            custom.sort();
            for (name, n) in custom {
                let _ = o.insert(format!("count/custom/{name}"), n.to_string());
            }
        }
        Ok(Err(e)) => {
            let _ = o.insert("count/i".into(), format!("err:{}", real::err_name(&e.inner)));
        }
        Err(p) => {
            let _ = o.insert("count/i".into(), format!("PANIC:{p}"));
        }
    }
    if opts.battery {
        for (label, q) in battery(model) {
            let v = match real::query(store, &q) {
                QueryOutcome::Ok(ids, _) => {
                    // order newest-first is part of the value
                    let mut ordered = true;
                    let mut last: Option<u64> = None;
                    for id in &ids {
                        if let Some(e) = model.events.get(id) {
                            if let Some(l) = last {
                                if e.at > l {
                                    ordered = false;
                                }
                            }
                            last = Some(e.at);
                        }
                    }
                    let mut s: Vec<String> = ids.iter().map(|i| hex(&i[..])).collect();
                    let n = s.len();
                    s.sort();
                    s.dedup();
                    format!("{}{}{}", s.join(","), if ordered { "" } else { " !unordered" }, if s.len() != n { " !dup" } else { "" })
                }
                QueryOutcome::Scraper => "err:Scraper".into(),
                QueryOutcome::OtherErr(e) => format!("err:{e}"),
                QueryOutcome::Panic(p) => format!("PANIC:{p}"),
            };
            let _ = o.insert(format!("bat/{label}"), v);
        }
    }
    if opts.extra {
        for t in 0..n_extra {
            let name = EXTRA_NAMES[t as usize];
            let v = real::catch(|| -> Result<String, String> {
                let table = store.extra_table(name).ok_or("no such table")?;
                let txn = store.read_txn().map_err(|e| real::err_name(&e.inner))?;
                let mut rows = vec![];
                for r in table.iter(&txn).map_err(|e| e.to_string())? {
                    let (k, v) = r.map_err(|e| e.to_string())?;
                    rows.push(format!("{}={}", hex(k), hex(v)));
                }
                Ok(rows.join(","))
            });
            let v = match v {
                Ok(Ok(s)) => s,
                Ok(Err(e)) => format!("err:{e}"),
                Err(p) => format!("PANIC:{p}"),
            };
            let _ = o.insert(format!("extra/{name}"), v);
        }
    }
    o
}

/// What the model says the same probes must show (only probes the properties pin down)
pub fn observe_model(model: &Model, enc: &dyn Fn(&B32) -> Option<Vec<u8>>, opts: &ObsOpts, n_extra: u8) -> Obs {
    let mut o = Obs::new();
    let ids: Vec<B32> = model.events.keys().copied().chain(model.named_ids.iter().copied()).collect();
    for id in &ids {
        let r = model.retrievable.contains(id);
        let _ = o.insert(format!("has/{}", hex(id)), r.to_string());
        let v = if r { enc(id).map(|b| bytes_val(&b)).unwrap_or_else(|| "?".into()) } else { "none".into() };
        let _ = o.insert(format!("byid/{}", hex(id)), v);
        let _ = o.insert(format!("delid/{}", hex(id)), model.deleted_ids.contains(id).to_string());
    }
    if opts.offsets {
        for (off, (id, _)) in model.offsets.iter() {
            let v = enc(id).map(|b| bytes_val(&b)).unwrap_or_else(|| "?".into());
            let _ = o.insert(format!("off/{:010}", off), v);
        }
    }
    for a in &model.addr_universe {
        let v = match model.deleted_addrs.get(a) {
            Some(t) => t.to_string(),
            None => "none".into(),
        };
        let _ = o.insert(format!("deladdr/{}/{}/{}", a.kind, hex(&a.pk), hex(&a.d)), v);
        let is_r = is_replaceable(a.kind) && a.d.is_empty();
        if is_r || is_param(a.kind) {
            let hs = model.holders(a);
            let v = match hs.len() {
                0 => "none".to_string(),
                1 => format!("{}:{}", hex(&hs[0].id), enc(&hs[0].id).map(|b| bytes_val(&b)).unwrap_or_else(|| "?".into())),
                n => format!("MODEL-HAS-{n}-HOLDERS"),
            };
            if is_r {
                let _ = o.insert(format!("repl/{}/{}", a.kind, hex(&a.pk)), v);
            } else {
                let _ = o.insert(format!("prepl/{}/{}/{}", a.kind, hex(&a.pk), hex(&a.d)), v);
            }
        }
    }
    let n = model.retrievable.len().to_string();
    for k in ["i", "ci", "ac", "akc"] {
        let _ = o.insert(format!("count/{k}"), n.clone());
    }
    if model.retrievable.is_empty() {
        for k in ["tc", "atc", "ktc"] {
            let _ = o.insert(format!("count/{k}"), "0".into());
        }
    }
    let _ = o.insert("count/del".into(), model.deleted_ids.len().to_string());
    let _ = o.insert("count/deladdr".into(), model.deleted_addrs.len().to_string());
    for t in 0..n_extra {
        let name = EXTRA_NAMES[t as usize];
        let rows = model.extra.get(&t).map(|m| m.len()).unwrap_or(0);
        let _ = o.insert(format!("count/custom/{name}"), rows.to_string());
    }
    if opts.battery {
        for (label, q) in battery(model) {
            let ex = model.query_expect(&q);
            let mut s: Vec<String> = ex.matching.iter().map(|(_, i)| hex(&i[..])).collect();
            s.sort();
            let _ = o.insert(format!("bat/{label}"), s.join(","));
        }
    }
    if opts.extra {
        for t in 0..n_extra {
            let name = EXTRA_NAMES[t as usize];
            let rows: Vec<String> = model
                .extra
                .get(&t)
                .map(|m| m.iter().map(|(k, v)| format!("{}={}", hex(k), hex(v))).collect())
                .unwrap_or_default();
            let _ = o.insert(format!("extra/{name}"), rows.join(","));
        }
    }
    o
}

/// First probe on which `real` differs from what `expected` pins down
pub fn first_diff<'a>(expected: &'a Obs, real: &'a Obs) -> Option<(&'a str, &'a str, &'a str)> {
    for (k, v) in expected {
        match real.get(k) {
            Some(r) if r == v => {}
            Some(r) => return Some((k.as_str(), v.as_str(), r.as_str())),
            None => return Some((k.as_str(), v.as_str(), "<probe missing>")),
        }
    }
    None
}

/// Every probe on which `real` differs from what `expected` pins down: (probe, wanted, got)
pub fn all_diffs(expected: &Obs, real: &Obs) -> Vec<(String, String, String)> {
    let mut out = vec![];
    for (k, v) in expected {
        match real.get(k) {
            Some(r) if r == v => {}
            Some(r) => out.push((k.clone(), v.clone(), r.clone())),
            None => out.push((k.clone(), v.clone(), "<probe missing>".to_string())),
        }
    }
    out
}

/// All probes on which two real observations differ (both directions)
pub fn diff_all(before: &Obs, after: &Obs, skip_prefix: &[&str]) -> Vec<(String, String, String)> {
    let mut out = vec![];
    for (k, v) in before {
        if skip_prefix.iter().any(|p| k.starts_with(p)) {
            continue;
        }
        match after.get(k) {
            Some(r) if r == v => {}
            Some(r) => out.push((k.clone(), v.clone(), r.clone())),
            None => out.push((k.clone(), v.clone(), "<missing>".into())),
        }
    }
    for (k, v) in after {
        if skip_prefix.iter().any(|p| k.starts_with(p)) {
            continue;
        }
        if !before.contains_key(k) {
            out.push((k.clone(), "<missing>".into(), v.clone()));
        }
    }
    out
}
