//! Thin wrappers that drive the REAL pocket-db / pocket-types through their public API.

use crate::model::QueryOutcome;
use crate::spec::*;
use pocket_db::{InnerError, ScreenResult, Store};
use pocket_types::{Addr, Id, Kind, OwnedEvent, OwnedFilter, OwnedTags, Pubkey, Sig, Time};
use std::cell::RefCell;
use std::panic::{catch_unwind, AssertUnwindSafe};

thread_local! {
    static LAST_PANIC: RefCell<Option<String>> = const { RefCell::new(None) };
    static CATCHING: std::cell::Cell<u32> = const { std::cell::Cell::new(0) };
}

/// Panics are captured (message + location) instead of printed; `catch` returns them.
pub fn install_panic_hook() {
    std::panic::set_hook(Box::new(|info| {
        let msg = if let Some(s) = info.payload().downcast_ref::<&str>() {
            s.to_string()
        } else if let Some(s) = info.payload().downcast_ref::<String>() {
            s.clone()
        } else {
            "panic".to_string()
        };
        let loc = info.location().map(|l| format!("{}:{}", l.file(), l.line())).unwrap_or_default();
        if CATCHING.with(|c| c.get()) == 0 {
            eprintln!("pocket-sim: harness panic: {msg} @ {loc}");
        }
        LAST_PANIC.with(|p| *p.borrow_mut() = Some(format!("{msg} @ {loc}")));
    }));
}

pub fn catch<T>(f: impl FnOnce() -> T) -> Result<T, String> {
    CATCHING.with(|c| c.set(c.get() + 1));
    let r = catch_unwind(AssertUnwindSafe(f));
    CATCHING.with(|c| c.set(c.get() - 1));
    match r {
        Ok(v) => Ok(v),
        Err(_) => Err(LAST_PANIC.with(|p| p.borrow_mut().take()).unwrap_or_else(|| "panic".into())),
    }
}

pub fn encode(e: &EvSpec) -> OwnedEvent {
    let tags = OwnedTags::new(&e.tags).expect("OwnedTags::new");
    // signature bytes are arbitrary (the store does not verify); derived from the id so that
    // equal specs give equal bytes
    let mut sig = [0u8; 64];
    sig[..32].copy_from_slice(&e.id);
    for i in 0..32 {
        sig[32 + i] = e.id[31 - i] ^ 0x5a;
    }
    OwnedEvent::new(
        Id::from_bytes(e.id),
        Kind::from_u16(e.kind),
        Pubkey::from_bytes(e.pk),
        Sig::from_bytes(sig),
        &tags,
        Time::from_u64(e.at),
        &e.content,
    )
    .expect("OwnedEvent::new")
}

pub fn filter_of(q: &QuerySpec) -> OwnedFilter {
    let ids: Vec<Id> = q.ids.iter().map(|i| Id::from_bytes(*i)).collect();
    let authors: Vec<Pubkey> = q.authors.iter().map(|i| Pubkey::from_bytes(*i)).collect();
    let kinds: Vec<Kind> = q.kinds.iter().map(|k| Kind::from_u16(*k)).collect();
    let tagparts: Vec<Vec<String>> = q
        .tags
        .iter()
        .map(|(l, vs)| {
            let mut t = vec![l.to_string()];
            t.extend(vs.iter().cloned());
            t
        })
        .collect();
    let tags = OwnedTags::new(&tagparts).expect("OwnedTags::new (filter)");
    OwnedFilter::new(
        &ids,
        &authors,
        &kinds,
        &tags,
        q.since.map(Time::from_u64),
        q.until.map(Time::from_u64),
        q.limit,
    )
    .expect("OwnedFilter::new")
}

pub fn err_name(e: &InnerError) -> String {
    match e {
        InnerError::Deleted => "Deleted".into(),
        InnerError::Duplicate => "Duplicate".into(),
        InnerError::EndOfInput => "EndOfInput".into(),
        InnerError::General(s) => format!("General({s})"),
        InnerError::Lmdb(e) => format!("Lmdb({e})"),
        InnerError::InvalidDelete => "InvalidDelete".into(),
        InnerError::Io(e) => format!("Io({e})"),
        InnerError::Ownership => "Ownership".into(),
        InnerError::PocketTypes(e) => format!("PocketTypes({e})"),
        InnerError::Replaced => "Replaced".into(),
        InnerError::Scraper => "Scraper".into(),
        InnerError::WrongEventKind => "WrongEventKind".into(),
    }
}

#[derive(Clone, Debug, PartialEq, Eq)]
pub enum StoreOutcome {
    Ok(u64),
    Duplicate,
    Deleted,
    Replaced,
    InvalidDelete,
    Injected(String),
    Other(String),
    Panic(String),
}

impl StoreOutcome {
    pub fn label(&self) -> String {
        match self {
            StoreOutcome::Ok(o) => format!("Ok({o})"),
            StoreOutcome::Injected(s) => format!("Injected({s})"),
            StoreOutcome::Other(s) => format!("Err({s})"),
            StoreOutcome::Panic(s) => format!("PANIC({s})"),
            x => format!("{:?}", x),
        }
    }
    pub fn class(&self) -> &'static str {
        match self {
            StoreOutcome::Ok(_) => "ok",
            StoreOutcome::Duplicate => "dup",
            StoreOutcome::Deleted => "deleted",
            StoreOutcome::Replaced => "replaced",
            StoreOutcome::InvalidDelete => "invalid_delete",
            StoreOutcome::Injected(_) => "injected",
            StoreOutcome::Other(_) => "other_err",
            StoreOutcome::Panic(_) => "panic",
        }
    }
}

pub fn store_event(store: &Store, ev: &OwnedEvent) -> StoreOutcome {
    match catch(|| store.store_event(ev)) {
        Err(p) => StoreOutcome::Panic(p),
        Ok(Ok(off)) => StoreOutcome::Ok(off),
        Ok(Err(e)) => match &e.inner {
            InnerError::Duplicate => StoreOutcome::Duplicate,
            InnerError::Deleted => StoreOutcome::Deleted,
            InnerError::Replaced => StoreOutcome::Replaced,
            InnerError::InvalidDelete => StoreOutcome::InvalidDelete,
            InnerError::General(s) if s.starts_with("verif: injected") => StoreOutcome::Injected(s.clone()),
            InnerError::Io(ioe) if ioe.to_string().contains("verif: injected") => {
                StoreOutcome::Injected(ioe.to_string())
            }
            other => StoreOutcome::Other(err_name(other)),
        },
    }
}

pub fn query(store: &Store, q: &QuerySpec) -> QueryOutcome {
    let filter = filter_of(q);
    let r = catch(|| {
        store
            .find_events(&filter, q.allow_scrape, q.scrape_limit, q.scrape_secs, |e| {
                let id: [u8; 32] = e.id().as_slice().try_into().unwrap();
                match q.screen(&id) {
                    Screen::Match => ScreenResult::Match,
                    Screen::Mismatch => ScreenResult::Mismatch,
                    Screen::Redacted => ScreenResult::Redacted,
                }
            })
            .map(|(v, red)| {
                let ids: Vec<B32> = v.iter().map(|e| e.id().as_slice().try_into().unwrap()).collect();
                (ids, red)
            })
    });
    match r {
        Err(p) => QueryOutcome::Panic(p),
        Ok(Ok((ids, red))) => QueryOutcome::Ok(ids, red),
        Ok(Err(e)) => match e.inner {
            InnerError::Scraper => QueryOutcome::Scraper,
            other => QueryOutcome::OtherErr(err_name(&other)),
        },
    }
}

pub fn addr_of(a: &AddrKey) -> Addr {
    Addr { kind: Kind::from_u16(a.kind), author: Pubkey::from_bytes(a.pk), d: a.d.clone() }
}

/// the event a NIP-62 vanish request would be (only its pubkey matters to the store)
pub fn vanish_spec(pk: &B32) -> EvSpec {
    let mut id = *pk;
    id[0] ^= 0xa5;
    id[31] ^= 0x5a;
    EvSpec { id, pk: *pk, kind: 62, at: 1, tags: vec![vec!["relay".into(), "ALL_RELAYS".into()]], content: vec![] }
}

pub fn vanish_event(pk: &B32) -> OwnedEvent {
    encode(&vanish_spec(pk))
}
