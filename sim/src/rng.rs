//! The only source of randomness in the simulator: splitmix64 for seed derivation and
//! xoshiro256** for the per-run stream. Everything a run decides is drawn from here.

#[derive(Clone, Debug)]
pub struct Rng {
    s: [u64; 4],
}

pub fn splitmix64(state: &mut u64) -> u64 {
    *state = state.wrapping_add(0x9E37_79B9_7F4A_7C15);
    let mut z = *state;
    z = (z ^ (z >> 30)).wrapping_mul(0xBF58_476D_1CE4_E5B9);
    z = (z ^ (z >> 27)).wrapping_mul(0x94D0_49BB_1331_11EB);
    z ^ (z >> 31)
}

/// FNV-1a, used for labels -> numbers and for cheap content hashes in logs
pub fn fnv1a(bytes: &[u8]) -> u64 {
    let mut h: u64 = 0xcbf2_9ce4_8422_2325;
    for b in bytes {
        h ^= *b as u64;
        h = h.wrapping_mul(0x0000_0100_0000_01B3);
    }
    h
}

/// Derive the seed of run `i` of check `label` from VERIF_SEED
pub fn run_seed(verif_seed: u64, label: &str, i: u64) -> u64 {
    let mut st = verif_seed ^ fnv1a(label.as_bytes()).rotate_left(17) ^ i.wrapping_mul(0xA24B_AED4_963E_E407);
    let a = splitmix64(&mut st);
    let b = splitmix64(&mut st);
    a ^ b.rotate_left(32)
}

impl Rng {
    pub fn new(seed: u64) -> Rng {
        let mut st = seed;
        let s = [
            splitmix64(&mut st),
            splitmix64(&mut st),
            splitmix64(&mut st),
            splitmix64(&mut st),
        ];
        Rng { s }
    }

    pub fn next(&mut self) -> u64 {
        let result = self.s[1].wrapping_mul(5).rotate_left(7).wrapping_mul(9);
        let t = self.s[1] << 17;
        self.s[2] ^= self.s[0];
        self.s[3] ^= self.s[1];
        self.s[1] ^= self.s[2];
        self.s[0] ^= self.s[3];
        self.s[2] ^= t;
        self.s[3] = self.s[3].rotate_left(45);
        result
    }

    /// uniform in 0..n (n > 0)
    pub fn below(&mut self, n: u64) -> u64 {
        debug_assert!(n > 0);
        // multiply-shift; bias is irrelevant here
        ((self.next() as u128 * n as u128) >> 64) as u64
    }

    pub fn usize(&mut self, n: usize) -> usize {
        self.below(n as u64) as usize
    }

    /// inclusive range
    pub fn range(&mut self, lo: u64, hi: u64) -> u64 {
        lo + self.below(hi - lo + 1)
    }

    /// true with probability num/den
    pub fn chance(&mut self, num: u64, den: u64) -> bool {
        self.below(den) < num
    }

    pub fn pick<'a, T>(&mut self, v: &'a [T]) -> &'a T {
        &v[self.usize(v.len())]
    }

    pub fn bytes32(&mut self) -> [u8; 32] {
        let mut out = [0u8; 32];
        for c in out.chunks_mut(8) {
            c.copy_from_slice(&self.next().to_le_bytes());
        }
        out
    }

    /// index drawn according to integer weights (at least one weight > 0)
    pub fn weighted(&mut self, weights: &[u32]) -> usize {
        let total: u64 = weights.iter().map(|w| *w as u64).sum();
        let mut x = self.below(total.max(1));
        for (i, w) in weights.iter().enumerate() {
            if x < *w as u64 {
                return i;
            }
            x -= *w as u64;
        }
        weights.len() - 1
    }

    pub fn shuffle<T>(&mut self, v: &mut [T]) {
        for i in (1..v.len()).rev() {
            let j = self.usize(i + 1);
            v.swap(i, j);
        }
    }

    pub fn fork(&mut self) -> Rng {
        Rng::new(self.next())
    }
}
