//! Running one trace in this process.

use crate::exec::{RunResult, Sim};
use crate::spec::*;
use std::collections::BTreeSet;
use std::path::PathBuf;
use std::sync::atomic::{AtomicU64, Ordering};

static COUNTER: AtomicU64 = AtomicU64::new(0);

/// Wall-clock watchdog over one run of a worker / replay process. A sequential run has no
/// scheduler that could notice a call that never returns (a thread blocking on a lock it
/// holds itself, an endless loop): the process then ends with exit code 3, which the parent
/// treats like any other death of a worker - it replays the trace in a fresh process (which
/// ends the same way) and reports the violation. The limit is far above what any run takes
/// (the longest, bulk histories in the thorough tier, take seconds).
static RUN_STARTED_MS: AtomicU64 = AtomicU64::new(0);
pub const RUN_WALL_LIMIT_S: u64 = 120;

fn now_ms() -> u64 {
    std::time::SystemTime::now().duration_since(std::time::UNIX_EPOCH).map(|d| d.as_millis() as u64).unwrap_or(0)
}

pub fn watchdog_start() {
    let _ = std::thread::Builder::new().name("watchdog".into()).spawn(|| loop {
        std::thread::sleep(std::time::Duration::from_millis(500));
        let t = RUN_STARTED_MS.load(Ordering::SeqCst);
        if t != 0 && now_ms().saturating_sub(t) > RUN_WALL_LIMIT_S * 1000 {
            println!("HUNG: a call into the store did not return within {RUN_WALL_LIMIT_S} s (blocked or spinning); the process ends with exit code 3");
            let _ = std::io::Write::flush(&mut std::io::stdout());
            cleanup_scratch_root();
            unsafe { libc::_exit(3) };
        }
    });
}

pub fn scratch_root() -> PathBuf {
    let base = match std::env::var("VERIF_SCRATCH") {
        Ok(b) if !b.is_empty() => PathBuf::from(b),
        _ => {
            // tmpfs if it is there and writable, else the system temp dir
            let shm = PathBuf::from("/dev/shm");
            let probe = shm.join(format!(".pocket-sim-probe.{}", std::process::id()));
            if shm.is_dir() && std::fs::write(&probe, b"x").is_ok() {
                let _ = std::fs::remove_file(&probe);
                shm
            } else {
                std::env::temp_dir()
            }
        }
    };
    base.join(format!("pocket-sim.{}", std::process::id()))
}

/// remove what a (dead or killed) child process left behind
pub fn cleanup_scratch_of(pid: u32) {
    if let Some(parent) = scratch_root().parent() {
        let _ = std::fs::remove_dir_all(parent.join(format!("pocket-sim.{pid}")));
    }
}

/// remove scratch directories of simulator processes that no longer exist (killed batches,
/// replays of traces that crash the process)
pub fn sweep_stale_scratch() {
    let root = scratch_root();
    let Some(base) = root.parent() else { return };
    let Ok(rd) = std::fs::read_dir(base) else { return };
    for ent in rd.flatten() {
        let name = ent.file_name().to_string_lossy().to_string();
        if let Some(pid) = name.strip_prefix("pocket-sim.").and_then(|p| p.parse::<i32>().ok()) {
            // signal 0: existence test only
            let alive = unsafe { libc::kill(pid, 0) } == 0 || std::io::Error::last_os_error().raw_os_error() == Some(libc::EPERM);
            if !alive {
                let _ = std::fs::remove_dir_all(ent.path());
            }
        }
    }
}

pub fn cleanup_scratch_root() {
    let _ = std::fs::remove_dir_all(scratch_root());
}

pub fn run_trace(trace: &Trace, known_open: &BTreeSet<String>, verbose: bool) -> RunResult {
    RUN_STARTED_MS.store(now_ms().max(1), Ordering::SeqCst);
    let r = run_trace_inner(trace, known_open, verbose);
    RUN_STARTED_MS.store(0, Ordering::SeqCst);
    r
}

fn run_trace_inner(trace: &Trace, known_open: &BTreeSet<String>, verbose: bool) -> RunResult {
    let n = COUNTER.fetch_add(1, Ordering::SeqCst);
    let scratch = scratch_root().join(format!("r{n}"));
    let _ = std::fs::remove_dir_all(&scratch);
    match trace.cfg.mode {
        Mode::Conc => crate::conc::run_conc(trace, scratch, known_open, verbose),
        _ => {
            let mut sim = Sim::new(trace.cfg.clone(), scratch, known_open.clone());
            sim.verbose = verbose;
            sim.run(&trace.ops)
        }
    }
}

/// Open findings from /verif/KNOWN_FINDINGS.txt: lines `finding: property=<id> sig=<sig> ...`
pub fn load_known(path: &str) -> (BTreeSet<String>, Vec<(String, String, String)>) {
    let mut sigs = BTreeSet::new();
    let mut entries = vec![];
    if let Ok(text) = std::fs::read_to_string(path) {
        for line in text.lines() {
            let line = line.trim();
            if let Some(rest) = line.strip_prefix("finding:") {
                let mut prop = String::new();
                let mut sig = String::new();
                for tok in rest.split_whitespace() {
                    if let Some(p) = tok.strip_prefix("property=") {
                        prop = p.to_string();
                    } else if let Some(s) = tok.strip_prefix("sig=") {
                        sig = s.to_string();
                    }
                }
                if !sig.is_empty() {
                    let _ = sigs.insert(sig.clone());
                    entries.push((prop, sig, rest.trim().to_string()));
                }
            }
        }
    }
    (sigs, entries)
}
