//! Structured operations and traces. A trace is fully explicit: ops carry concrete
//! arguments (whole events, ids, filters), so any sub-sequence of a trace is itself a
//! well-formed trace, and replay needs no PRNG.

use std::fmt::Write as _;

pub type B32 = [u8; 32];

pub fn hex(b: &[u8]) -> String {
    let mut s = String::with_capacity(b.len() * 2);
    for x in b {
        let _ = write!(s, "{:02x}", x);
    }
    s
}

pub fn unhex(s: &str) -> Result<Vec<u8>, String> {
    if s.len() % 2 != 0 {
        return Err(format!("odd hex length: {s}"));
    }
    let b = s.as_bytes();
    let mut out = Vec::with_capacity(b.len() / 2);
    for i in (0..b.len()).step_by(2) {
        let h = (b[i] as char).to_digit(16).ok_or_else(|| format!("bad hex: {s}"))?;
        let l = (b[i + 1] as char).to_digit(16).ok_or_else(|| format!("bad hex: {s}"))?;
        out.push((h * 16 + l) as u8);
    }
    Ok(out)
}

pub fn unhex32(s: &str) -> Result<B32, String> {
    let v = unhex(s)?;
    v.try_into().map_err(|_| format!("not 32 bytes: {s}"))
}

pub fn short(b: &B32) -> String {
    hex(&b[..4])
}

#[derive(Clone, PartialEq, Eq, Debug)]
pub struct EvSpec {
    pub id: B32,
    pub pk: B32,
    pub kind: u16,
    pub at: u64,
    pub tags: Vec<Vec<String>>,
    pub content: Vec<u8>,
}

#[derive(Clone, PartialEq, Eq, PartialOrd, Ord, Debug, Hash)]
pub struct AddrKey {
    pub kind: u16,
    pub pk: B32,
    pub d: Vec<u8>,
}

impl AddrKey {
    pub fn label(&self) -> String {
        format!("{}:{}:{}", self.kind, short(&self.pk), hex(&self.d))
    }
}

pub fn is_replaceable(kind: u16) -> bool {
    kind == 0 || kind == 3 || (10000..20000).contains(&kind)
}
pub fn is_param(kind: u16) -> bool {
    (30000..40000).contains(&kind)
}
pub fn is_ephemeral(kind: u16) -> bool {
    (20000..30000).contains(&kind)
}

impl EvSpec {
    /// The value of the first `d` tag (NIP-01: the first tag named d), if it has one
    pub fn d(&self) -> Option<&str> {
        for t in &self.tags {
            if t.first().map(|s| s.as_str()) == Some("d") {
                return t.get(1).map(|s| s.as_str());
            }
        }
        None
    }

    /// The replaceable address this event lives at, if any
    pub fn addr(&self) -> Option<AddrKey> {
        if is_replaceable(self.kind) {
            Some(AddrKey { kind: self.kind, pk: self.pk, d: vec![] })
        } else if is_param(self.kind) {
            self.d().map(|d| AddrKey { kind: self.kind, pk: self.pk, d: d.as_bytes().to_vec() })
        } else {
            None
        }
    }

    /// Approximate encoded size
    pub fn size(&self) -> usize {
        let mut t = 4 + 2 * self.tags.len();
        for tag in &self.tags {
            t += 2;
            for s in tag {
                t += 2 + s.len();
            }
        }
        144 + t + 4 + self.content.len()
    }
}

/// The address an `a` tag value names, parsed the way NIP-01 writes it: kind:pubkeyhex:d
pub fn parse_a_target(v: &str) -> Option<AddrKey> {
    let mut it = v.splitn(3, ':');
    let k = it.next()?;
    let p = it.next()?;
    let d = it.next()?;
    if k.is_empty() || k.len() > 5 || !k.bytes().all(|c| c.is_ascii_digit()) {
        return None;
    }
    let kind: u16 = k.parse().ok()?;
    if p.len() != 64 || !p.bytes().all(|c| c.is_ascii_digit() || (b'a'..=b'f').contains(&c)) {
        return None;
    }
    let pk = unhex32(p).ok()?;
    Some(AddrKey { kind, pk, d: d.as_bytes().to_vec() })
}

/// The id an `e` tag value names: exactly 64 lowercase hex characters
pub fn parse_e_target(v: &str) -> Option<B32> {
    if v.len() != 64 || !v.bytes().all(|c| c.is_ascii_digit() || (b'a'..=b'f').contains(&c)) {
        return None;
    }
    unhex32(v).ok()
}

#[derive(Clone, PartialEq, Eq, Debug, Default)]
pub struct QuerySpec {
    pub ids: Vec<B32>,
    pub authors: Vec<B32>,
    pub kinds: Vec<u16>,
    /// (letter, values)
    pub tags: Vec<(char, Vec<String>)>,
    pub since: Option<u64>,
    pub until: Option<u64>,
    pub limit: Option<u32>,
    pub allow_scrape: bool,
    pub scrape_limit: u32,
    pub scrape_secs: u64,
    /// screening: result for an event is a function of (screen_seed, id):
    /// x = hash % 100; x < redact_pct => Redacted; x < redact_pct+mismatch_pct => Mismatch
    pub screen_seed: u64,
    pub mismatch_pct: u8,
    pub redact_pct: u8,
}

#[derive(Clone, Copy, PartialEq, Eq, Debug)]
pub enum Screen {
    Match,
    Mismatch,
    Redacted,
}

impl QuerySpec {
    pub fn screen(&self, id: &B32) -> Screen {
        if self.mismatch_pct == 0 && self.redact_pct == 0 {
            return Screen::Match;
        }
        let mut st = self.screen_seed ^ u64::from_le_bytes(id[0..8].try_into().unwrap());
        let x = (crate::rng::splitmix64(&mut st) % 100) as u8;
        if x < self.redact_pct {
            Screen::Redacted
        } else if x < self.redact_pct.saturating_add(self.mismatch_pct) {
            Screen::Mismatch
        } else {
            Screen::Match
        }
    }
    pub fn is_scrape(&self) -> bool {
        self.ids.is_empty() && self.authors.is_empty() && self.tags.is_empty()
    }
    pub fn all_allowed() -> QuerySpec {
        QuerySpec { allow_scrape: true, ..Default::default() }
    }
}

#[derive(Clone, Copy, PartialEq, Eq, Debug)]
pub enum ReopenKind {
    /// drop the Store and call Store::new on the same path (environment stays open in-process)
    Drop,
    /// really close (verif_close) and call Store::new on the same path
    Close,
    /// copy the directory while the store is open and continue on the copy (what another
    /// process opening the same files would see)
    Copy,
}

#[derive(Clone, PartialEq, Eq, Debug)]
pub enum Op {
    Store(EvSpec),
    Remove(B32),
    Vanish(B32),
    Query(QuerySpec),
    Reopen(ReopenKind),
    Rebuild,
    ExtraPut(u8, Vec<u8>, Vec<u8>),
    ExtraDel(u8, Vec<u8>),
    Clock(Option<u64>),
    /// take a reference to the event with this id (C15), by id lookup
    TakeRef(B32),
    /// get_event_by_id (a reader op of the concurrent mode)
    Get(B32),
    /// has_event (a reader op of the concurrent mode)
    Has(B32),
    /// Store::stats(): the id / time / author / author-kind entry counts (a reader op)
    Stats,
    /// Store::sync()
    Sync,
    /// event_is_deleted (a reader op of the concurrent mode)
    IsDeleted(B32),
    /// naddr_is_deleted_asof (a reader op of the concurrent mode)
    AddrDeleted(AddrKey),
    /// find_replaceable_event / find_parameterized_replaceable_event (a reader op of the concurrent mode)
    Holder(AddrKey),
    /// get_event_by_offset at the offset the base history acknowledged for this id (a reader op of
    /// the concurrent mode): the bytes stored there, whatever has happened to the event since
    GetOff(B32),
    /// close the store and open it again with the first n of the extra tables (a different
    /// configuration than before: tables that are not opened keep their rows for the day they are
    /// opened again, tables opened for the first time are empty)
    Tables(u8),
    /// outside interference that must not matter: delete (part of) the backup a rebuild left
    /// behind (0 = event.map.bak, 1 = lmdb.bak, 2 = both), or (3) a plain file put in the place of
    /// lmdb.bak, which the next rebuild cannot clear away
    RemoveBackup(u8),
    /// the NEXT op is killed at its k-th kill point and the run continues from the
    /// durable state of that instant (crash mode)
    Crash(u32),
    /// the NEXT mutating op (store / remove / vanish) has its k-th fail-point call fail
    Fail(u32),
    /// the NEXT mutating op runs while every slot of LMDB's reader table is taken
    /// (read transactions held open through the public API): read_txn() fails inside it
    Starve,
    /// the NEXT store / removal runs under a file size limit (RLIMIT_FSIZE, the kernel's own
    /// "no more room": ftruncate and write beyond the limit fail with EFBIG); 0 = at the current
    /// length of event.map, 1 = at the current length of data.mdb, 2 = 8 KiB, 3 = the larger of
    /// the two lengths, 4..7 = 1/8, 1/4, 3/8, 5/8 of the length of data.mdb, 8 = 90 bytes beyond the used part of event.map
    Fsize(u8),
    /// the event map as it is after gigabytes of events that are long gone: the store is closed,
    /// the file lengthened (sparsely) and its end marker moved to this offset, the store reopened.
    /// Everything stored before keeps its offset; what is stored next lies beyond.
    Inflate(u64),
    /// like `Inflate`, to the offset that lies exactly this many bytes above the event with this
    /// id (the next event stored then shares that event's offset modulo the distance)
    InflateOnto(u64, B32),
}

impl Op {
    pub fn kind_name(&self) -> &'static str {
        match self {
            Op::Store(e) => {
                if e.kind == 5 {
                    "store5"
                } else {
                    "store"
                }
            }
            Op::Remove(_) => "remove",
            Op::Vanish(_) => "vanish",
            Op::Query(_) => "query",
            Op::Reopen(ReopenKind::Drop) => "reopen_drop",
            Op::Reopen(ReopenKind::Close) => "reopen_close",
            Op::Reopen(ReopenKind::Copy) => "reopen_copy",
            Op::Rebuild => "rebuild",
            Op::ExtraPut(..) => "extra_put",
            Op::ExtraDel(..) => "extra_del",
            Op::Clock(_) => "clock",
            Op::TakeRef(_) => "take_ref",
            Op::Get(_) => "get",
            Op::Has(_) => "has",
            Op::Stats => "stats",
            Op::Sync => "sync",
            Op::IsDeleted(_) => "is_deleted",
            Op::AddrDeleted(_) => "addr_deleted",
            Op::Holder(_) => "holder",
            Op::GetOff(_) => "get_off",
            Op::Tables(_) => "tables",
            Op::RemoveBackup(_) => "remove_backup",
            Op::Crash(_) => "crash",
            Op::Fail(_) => "fail",
            Op::Starve => "starve",
            Op::Fsize(_) => "fsize",
            Op::Inflate(_) => "inflate",
            Op::InflateOnto(..) => "inflate_onto",
        }
    }
    pub fn is_modifier(&self) -> bool {
        matches!(self, Op::Crash(_) | Op::Fail(_) | Op::Starve | Op::Fsize(_))
    }
}

// ---------------------------------------------------------------- text form

fn enc_str(s: &str) -> String {
    if s.is_empty() {
        "~".to_string()
    } else {
        hex(s.as_bytes())
    }
}
fn dec_str(s: &str) -> Result<String, String> {
    if s == "~" {
        Ok(String::new())
    } else {
        String::from_utf8(unhex(s)?).map_err(|e| e.to_string())
    }
}
fn enc_bytes(b: &[u8]) -> String {
    if b.is_empty() {
        "~".to_string()
    } else {
        hex(b)
    }
}
fn dec_bytes(s: &str) -> Result<Vec<u8>, String> {
    if s == "~" {
        Ok(vec![])
    } else {
        unhex(s)
    }
}
fn enc_tags(tags: &[Vec<String>]) -> String {
    if tags.is_empty() {
        return "-".into();
    }
    tags.iter()
        .map(|t| {
            if t.is_empty() {
                ".".to_string()
            } else {
                t.iter().map(|s| enc_str(s)).collect::<Vec<_>>().join(",")
            }
        })
        .collect::<Vec<_>>()
        .join(";")
}
fn dec_tags(s: &str) -> Result<Vec<Vec<String>>, String> {
    if s == "-" {
        return Ok(vec![]);
    }
    let mut out = vec![];
    for t in s.split(';') {
        if t == "." {
            out.push(vec![]);
        } else {
            let mut tag = vec![];
            for x in t.split(',') {
                tag.push(dec_str(x)?);
            }
            out.push(tag);
        }
    }
    Ok(out)
}
fn enc_list32(v: &[B32]) -> String {
    if v.is_empty() {
        "-".into()
    } else {
        v.iter().map(|x| hex(x)).collect::<Vec<_>>().join(",")
    }
}
fn dec_list32(s: &str) -> Result<Vec<B32>, String> {
    if s == "-" {
        return Ok(vec![]);
    }
    s.split(',').map(unhex32).collect()
}
fn enc_opt(v: Option<u64>) -> String {
    match v {
        None => "-".into(),
        Some(x) => x.to_string(),
    }
}
fn dec_opt(s: &str) -> Result<Option<u64>, String> {
    if s == "-" {
        Ok(None)
    } else {
        s.parse::<u64>().map(Some).map_err(|e| e.to_string())
    }
}

struct Kv<'a>(Vec<(&'a str, &'a str)>);
impl<'a> Kv<'a> {
    fn parse(parts: &[&'a str]) -> Result<Kv<'a>, String> {
        let mut v = vec![];
        for p in parts {
            let (k, val) = p.split_once('=').ok_or_else(|| format!("expected key=value: {p}"))?;
            v.push((k, val));
        }
        Ok(Kv(v))
    }
    fn get(&self, k: &str) -> Result<&'a str, String> {
        self.0.iter().find(|(kk, _)| *kk == k).map(|(_, v)| *v).ok_or_else(|| format!("missing {k}"))
    }
}

impl EvSpec {
    pub fn to_text(&self) -> String {
        format!(
            "id={} pk={} kind={} at={} tags={} content={}",
            hex(&self.id),
            hex(&self.pk),
            self.kind,
            self.at,
            enc_tags(&self.tags),
            enc_bytes(&self.content)
        )
    }
    fn from_kv(kv: &Kv) -> Result<EvSpec, String> {
        Ok(EvSpec {
            id: unhex32(kv.get("id")?)?,
            pk: unhex32(kv.get("pk")?)?,
            kind: kv.get("kind")?.parse().map_err(|e| format!("{e}"))?,
            at: kv.get("at")?.parse().map_err(|e| format!("{e}"))?,
            tags: dec_tags(kv.get("tags")?)?,
            content: dec_bytes(kv.get("content")?)?,
        })
    }
    /// human-readable one-liner for logs and evidence samples
    pub fn brief(&self) -> String {
        let tags: Vec<String> = self
            .tags
            .iter()
            .map(|t| {
                let parts: Vec<String> = t
                    .iter()
                    .map(|s| {
                        if s.len() > 20 {
                            format!("{:?}..({}B)", &s.chars().take(12).collect::<String>(), s.len())
                        } else {
                            format!("{:?}", s)
                        }
                    })
                    .collect();
                format!("[{}]", parts.join(","))
            })
            .collect();
        format!(
            "ev {} pk={} kind={} at={} tags=[{}] content={}B",
            short(&self.id),
            short(&self.pk),
            self.kind,
            self.at,
            tags.join(","),
            self.content.len()
        )
    }
}

impl QuerySpec {
    pub fn to_text(&self) -> String {
        let tags = if self.tags.is_empty() {
            "-".to_string()
        } else {
            self.tags
                .iter()
                .map(|(l, vs)| format!("{}:{}", *l as u32, vs.iter().map(|s| enc_str(s)).collect::<Vec<_>>().join(",")))
                .collect::<Vec<_>>()
                .join(";")
        };
        let kinds = if self.kinds.is_empty() {
            "-".to_string()
        } else {
            self.kinds.iter().map(|k| k.to_string()).collect::<Vec<_>>().join(",")
        };
        format!(
            "ids={} authors={} kinds={} tags={} since={} until={} limit={} scrape={} slimit={} ssecs={} sseed={} mis={} red={}",
            enc_list32(&self.ids),
            enc_list32(&self.authors),
            kinds,
            tags,
            enc_opt(self.since),
            enc_opt(self.until),
            enc_opt(self.limit.map(|x| x as u64)),
            self.allow_scrape as u8,
            self.scrape_limit,
            self.scrape_secs,
            self.screen_seed,
            self.mismatch_pct,
            self.redact_pct
        )
    }
    fn from_kv(kv: &Kv) -> Result<QuerySpec, String> {
        let e = |x: std::num::ParseIntError| x.to_string();
        let kinds_s = kv.get("kinds")?;
        let kinds = if kinds_s == "-" {
            vec![]
        } else {
            kinds_s.split(',').map(|k| k.parse::<u16>().map_err(e)).collect::<Result<Vec<_>, _>>()?
        };
        let tags_s = kv.get("tags")?;
        let mut tags = vec![];
        if tags_s != "-" {
            for t in tags_s.split(';') {
                let (l, vs) = t.split_once(':').ok_or("bad tag constraint")?;
                let letter = char::from_u32(l.parse::<u32>().map_err(e)?).ok_or("bad letter")?;
                let mut vals = vec![];
                if !vs.is_empty() {
                    for v in vs.split(',') {
                        vals.push(dec_str(v)?);
                    }
                }
                tags.push((letter, vals));
            }
        }
        Ok(QuerySpec {
            ids: dec_list32(kv.get("ids")?)?,
            authors: dec_list32(kv.get("authors")?)?,
            kinds,
            tags,
            since: dec_opt(kv.get("since")?)?,
            until: dec_opt(kv.get("until")?)?,
            limit: dec_opt(kv.get("limit")?)?.map(|x| x as u32),
            allow_scrape: kv.get("scrape")? == "1",
            scrape_limit: kv.get("slimit")?.parse().map_err(e)?,
            scrape_secs: kv.get("ssecs")?.parse().map_err(e)?,
            screen_seed: kv.get("sseed")?.parse().map_err(e)?,
            mismatch_pct: kv.get("mis")?.parse().map_err(e)?,
            redact_pct: kv.get("red")?.parse().map_err(e)?,
        })
    }
    pub fn brief(&self) -> String {
        let mut s = String::from("filter{");
        if !self.ids.is_empty() {
            let _ = write!(s, "ids=[{}] ", self.ids.iter().map(short).collect::<Vec<_>>().join(","));
        }
        if !self.authors.is_empty() {
            let _ = write!(s, "authors=[{}] ", self.authors.iter().map(short).collect::<Vec<_>>().join(","));
        }
        if !self.kinds.is_empty() {
            let _ = write!(s, "kinds={:?} ", self.kinds);
        }
        for (l, vs) in &self.tags {
            let vv: Vec<String> = vs
                .iter()
                .map(|v| if v.len() > 16 { format!("({}B)", v.len()) } else { format!("{:?}", v) })
                .collect();
            let _ = write!(s, "#{}=[{}] ", l, vv.join(","));
        }
        if let Some(x) = self.since {
            let _ = write!(s, "since={x} ");
        }
        if let Some(x) = self.until {
            let _ = write!(s, "until={x} ");
        }
        if let Some(x) = self.limit {
            let _ = write!(s, "limit={x} ");
        }
        let _ = write!(
            s,
            "}} scrape={}/{}/{} screen={}/{}",
            self.allow_scrape as u8, self.scrape_limit, self.scrape_secs, self.mismatch_pct, self.redact_pct
        );
        s
    }
}

impl Op {
    pub fn to_text(&self) -> String {
        match self {
            Op::Store(e) => format!("store {}", e.to_text()),
            Op::Remove(id) => format!("remove id={}", hex(id)),
            Op::Vanish(pk) => format!("vanish pk={}", hex(pk)),
            Op::Query(q) => format!("query {}", q.to_text()),
            Op::Reopen(ReopenKind::Drop) => "reopen kind=drop".into(),
            Op::Reopen(ReopenKind::Close) => "reopen kind=close".into(),
            Op::Reopen(ReopenKind::Copy) => "reopen kind=copy".into(),
            Op::Rebuild => "rebuild".into(),
            Op::ExtraPut(t, k, v) => format!("extra_put t={} k={} v={}", t, enc_bytes(k), enc_bytes(v)),
            Op::ExtraDel(t, k) => format!("extra_del t={} k={}", t, enc_bytes(k)),
            Op::Clock(c) => format!("clock now={}", enc_opt(*c)),
            Op::TakeRef(id) => format!("take_ref id={}", hex(id)),
            Op::Get(id) => format!("get id={}", hex(id)),
            Op::Has(id) => format!("has id={}", hex(id)),
            Op::Stats => "stats".into(),
            Op::Sync => "sync".into(),
            Op::IsDeleted(id) => format!("is_deleted id={}", hex(id)),
            Op::AddrDeleted(a) => format!("addr_deleted kind={} pk={} d={}", a.kind, hex(&a.pk), enc_bytes(&a.d)),
            Op::Holder(a) => format!("holder kind={} pk={} d={}", a.kind, hex(&a.pk), enc_bytes(&a.d)),
            Op::GetOff(id) => format!("get_off id={}", hex(id)),
            Op::Tables(n) => format!("tables n={n}"),
            Op::RemoveBackup(w) => format!("remove_backup which={w}"),
            Op::Crash(k) => format!("crash k={k}"),
            Op::Fail(k) => format!("fail k={k}"),
            Op::Starve => "starve".into(),
            Op::Fsize(m) => format!("fsize mode={m}"),
            Op::Inflate(e) => format!("inflate end={e}"),
            Op::InflateOnto(d, id) => format!("inflate_onto distance={d} id={}", hex(id)),
        }
    }

    pub fn from_text(line: &str) -> Result<Op, String> {
        let parts: Vec<&str> = line.split_whitespace().collect();
        if parts.is_empty() {
            return Err("empty op".into());
        }
        let kv = Kv::parse(&parts[1..])?;
        let e = |x: std::num::ParseIntError| x.to_string();
        Ok(match parts[0] {
            "store" => Op::Store(EvSpec::from_kv(&kv)?),
            "remove" => Op::Remove(unhex32(kv.get("id")?)?),
            "vanish" => Op::Vanish(unhex32(kv.get("pk")?)?),
            "query" => Op::Query(QuerySpec::from_kv(&kv)?),
            "reopen" => Op::Reopen(match kv.get("kind")? {
                "drop" => ReopenKind::Drop,
                "close" => ReopenKind::Close,
                "copy" => ReopenKind::Copy,
                x => return Err(format!("bad reopen kind {x}")),
            }),
            "rebuild" => Op::Rebuild,
            "extra_put" => Op::ExtraPut(kv.get("t")?.parse().map_err(e)?, dec_bytes(kv.get("k")?)?, dec_bytes(kv.get("v")?)?),
            "extra_del" => Op::ExtraDel(kv.get("t")?.parse().map_err(e)?, dec_bytes(kv.get("k")?)?),
            "clock" => Op::Clock(dec_opt(kv.get("now")?)?),
            "take_ref" => Op::TakeRef(unhex32(kv.get("id")?)?),
            "get" => Op::Get(unhex32(kv.get("id")?)?),
            "has" => Op::Has(unhex32(kv.get("id")?)?),
            "stats" => Op::Stats,
            "sync" => Op::Sync,
            "is_deleted" => Op::IsDeleted(unhex32(kv.get("id")?)?),
            "addr_deleted" => Op::AddrDeleted(AddrKey { kind: kv.get("kind")?.parse().map_err(e)?, pk: unhex32(kv.get("pk")?)?, d: dec_bytes(kv.get("d")?)? }),
            "holder" => Op::Holder(AddrKey { kind: kv.get("kind")?.parse().map_err(e)?, pk: unhex32(kv.get("pk")?)?, d: dec_bytes(kv.get("d")?)? }),
            "get_off" => Op::GetOff(unhex32(kv.get("id")?)?),
            "tables" => Op::Tables(kv.get("n")?.parse().map_err(e)?),
            "remove_backup" => Op::RemoveBackup(kv.get("which")?.parse().map_err(e)?),
            "crash" => Op::Crash(kv.get("k")?.parse().map_err(e)?),
            "fail" => Op::Fail(kv.get("k")?.parse().map_err(e)?),
            "starve" => Op::Starve,
            "fsize" => Op::Fsize(kv.get("mode")?.parse().map_err(e)?),
            "inflate" => Op::Inflate(kv.get("end")?.parse().map_err(e)?),
            "inflate_onto" => Op::InflateOnto(kv.get("distance")?.parse().map_err(e)?, unhex32(kv.get("id")?)?),
            x => return Err(format!("unknown op {x}")),
        })
    }

    pub fn brief(&self) -> String {
        match self {
            Op::Store(e) => format!("store {}", e.brief()),
            Op::Remove(id) => format!("remove {}", short(id)),
            Op::Vanish(pk) => format!("vanish pk={}", short(pk)),
            Op::Query(q) => format!("query {}", q.brief()),
            Op::TakeRef(id) => format!("take_ref {}", short(id)),
            Op::Get(id) => format!("get {}", short(id)),
            Op::Has(id) => format!("has {}", short(id)),
            other => other.to_text(),
        }
    }
}

#[derive(Clone, Copy, PartialEq, Eq, Debug)]
pub enum Mode {
    /// sequential history against the model
    Seq,
    /// sequential history; every kill point of every mutating op is snapshotted and checked
    Crash,
    /// sequential history; every fail-point occurrence of every store is made to fail once
    FailEnum,
    /// threads under the seeded controller
    Conc,
}

impl Mode {
    pub fn name(&self) -> &'static str {
        match self {
            Mode::Seq => "seq",
            Mode::Crash => "crash",
            Mode::FailEnum => "failenum",
            Mode::Conc => "conc",
        }
    }
    pub fn parse(s: &str) -> Result<Mode, String> {
        Ok(match s {
            "seq" => Mode::Seq,
            "crash" => Mode::Crash,
            "failenum" => Mode::FailEnum,
            "conc" => Mode::Conc,
            x => return Err(format!("bad mode {x}")),
        })
    }
}

/// Configuration of one run, part of the trace
#[derive(Clone, PartialEq, Eq, Debug)]
pub struct Cfg {
    pub prop: String,
    pub mode: Mode,
    pub seed: u64,
    /// install the PROT_NONE page after the event map after every op (forces growth to move it)
    pub blocker: bool,
    /// number of extra tables the store is opened with (names x0, x1, x2)
    pub extra_tables: u8,
    /// how thorough the per-step observation is: 0 = light, 1 = + battery and extra tables
    pub obs_level: u8,
    /// at the end of the run remove everything and require empty indexes (C17)
    pub drain: bool,
}

#[derive(Clone, PartialEq, Eq, Debug)]
pub struct Trace {
    pub cfg: Cfg,
    /// sequential modes: the ops. conc mode: the base history (run sequentially first)
    pub ops: Vec<Op>,
    /// conc mode: per-thread ops
    pub threads: Vec<Vec<Op>>,
    /// conc mode: the schedule, one thread index per scheduling decision
    pub schedule: Vec<u8>,
    /// replay files: the clause the trace is expected to violate (informational + checked)
    pub expect: Option<String>,
}

impl Trace {
    pub fn to_text(&self) -> String {
        let mut s = String::new();
        s.push_str("# pocket-sim trace v1\n");
        let c = &self.cfg;
        let _ = writeln!(
            s,
            "cfg prop={} mode={} seed={} blocker={} extra_tables={} obs_level={} drain={}",
            c.prop,
            c.mode.name(),
            c.seed,
            c.blocker as u8,
            c.extra_tables,
            c.obs_level,
            c.drain as u8
        );
        if let Some(e) = &self.expect {
            let _ = writeln!(s, "expect {}", e);
        }
        for op in &self.ops {
            let _ = writeln!(s, "op {}", op.to_text());
        }
        for (i, t) in self.threads.iter().enumerate() {
            for op in t {
                let _ = writeln!(s, "thread {} {}", i, op.to_text());
            }
        }
        if !self.schedule.is_empty() || !self.threads.is_empty() {
            let _ = writeln!(
                s,
                "schedule {}",
                self.schedule.iter().map(|x| x.to_string()).collect::<Vec<_>>().join(",")
            );
        }
        s
    }

    pub fn from_text(text: &str) -> Result<Trace, String> {
        let mut cfg: Option<Cfg> = None;
        let mut ops = vec![];
        let mut threads: Vec<Vec<Op>> = vec![];
        let mut schedule = vec![];
        let mut expect = None;
        for (n, line) in text.lines().enumerate() {
            let line = line.trim();
            if line.is_empty() || line.starts_with('#') {
                continue;
            }
            let err = |e: String| format!("line {}: {}", n + 1, e);
            let (head, rest) = line.split_once(' ').unwrap_or((line, ""));
            match head {
                "cfg" => {
                    let parts: Vec<&str> = rest.split_whitespace().collect();
                    let kv = Kv::parse(&parts).map_err(err)?;
                    let pe = |x: std::num::ParseIntError| x.to_string();
                    cfg = Some(Cfg {
                        prop: kv.get("prop").map_err(err)?.to_string(),
                        mode: Mode::parse(kv.get("mode").map_err(err)?).map_err(err)?,
                        seed: kv.get("seed").map_err(err)?.parse().map_err(pe).map_err(err)?,
                        blocker: kv.get("blocker").map_err(err)? == "1",
                        extra_tables: kv.get("extra_tables").map_err(err)?.parse().map_err(pe).map_err(err)?,
                        obs_level: kv.get("obs_level").map_err(err)?.parse().map_err(pe).map_err(err)?,
                        drain: kv.get("drain").map_err(err)? == "1",
                    });
                }
                "expect" => expect = Some(rest.to_string()),
                "op" => ops.push(Op::from_text(rest).map_err(err)?),
                "thread" => {
                    let (i, r) = rest.split_once(' ').ok_or_else(|| err("bad thread line".into()))?;
                    let i: usize = i.parse().map_err(|_| err("bad thread index".into()))?;
                    while threads.len() <= i {
                        threads.push(vec![]);
                    }
                    threads[i].push(Op::from_text(r).map_err(err)?);
                }
                "schedule" => {
                    if !rest.trim().is_empty() {
                        for x in rest.trim().split(',') {
                            schedule.push(x.parse::<u8>().map_err(|_| err("bad schedule".into()))?);
                        }
                    }
                }
                x => return Err(err(format!("unknown line kind {x}"))),
            }
        }
        Ok(Trace { cfg: cfg.ok_or("missing cfg line")?, ops, threads, schedule, expect })
    }
}
