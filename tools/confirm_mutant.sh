#!/bin/sh
# usage: confirm_mutant.sh <scratch-worktree> <dir-with-patch.diff-and-demo.rs> [crate: pocket-db|pocket-types]
# With RELEASE=1 the demonstration is run under `cargo test --release` (changes that exist only in a
# production build); the existing suite is always run in the default (debug) profile.
# Confirms in the scratch worktree: demo passes on the unchanged code; with the patch the
# existing suite still passes and the demo fails. Leaves the worktree clean.
set -u
WT="$1"; M="$2"; CRATE="${3:-pocket-db}"
export CARGO_NET_OFFLINE=true
cd "$WT" || exit 2
git checkout -q -- . ; rm -f pocket-db/tests/demo_*.rs pocket-types/tests/demo_*.rs
mkdir -p $CRATE/tests
cp "$M/demo.rs" $CRATE/tests/demo_mut.rs
echo "== demo on unchanged code (expect pass)"
cargo test ${RELEASE:+--release} --offline -p $CRATE ${FEAT:+--features $FEAT} --test demo_mut 2>&1 | grep -E "^test result|error(\[|:)" | head -5
git apply "$M/patch.diff" || { echo "PATCH DOES NOT APPLY"; rm -f $CRATE/tests/demo_mut.rs; exit 2; }
echo "== existing suite with the patch (expect 58 pass)"
mv $CRATE/tests/demo_mut.rs /tmp/demo_mut.rs.$$
cargo test --workspace --no-fail-fast --offline 2>&1 | grep -E "^test result|error(\[|:)" | head -8
echo "== build with --features verif"
cargo build --offline -p pocket-db --features verif 2>&1 | grep -E "^error|Finished" | head -3
mv /tmp/demo_mut.rs.$$ $CRATE/tests/demo_mut.rs
echo "== demo with the patch (expect FAIL)"
cargo test ${RELEASE:+--release} --offline -p $CRATE ${FEAT:+--features $FEAT} --test demo_mut 2>&1 | grep -E "^test result|error(\[|:)|panicked" | head -6
rm -f $CRATE/tests/demo_mut.rs
git checkout -q -- .
git status --short | grep -v "^?? OUT" | head
