#!/bin/sh
# usage: confirm_round.sh <worktree-prefix> [m1 m2 ...]
# e.g. confirm_round.sh /tmp/mut8-   -> for every /tmp/mut8-<prop>/OUT/m*/patch.diff runs
# tools/confirm_mutant.sh (one worktree at a time per property, properties in parallel) and
# prints one line per change: demo-unchanged / suite / verif-build / demo-patched.
set -u
PFX="$1"; shift
HERE=$(cd "$(dirname "$0")" && pwd)
OUTD=$(mktemp -d /tmp/confirm-round.XXXXXX)
for WT in "$PFX"*; do
    [ -d "$WT/OUT" ] || continue
    (
        for M in "$WT"/OUT/m*; do
            [ -f "$M/patch.diff" ] || continue
            FEAT=verif "$HERE/confirm_mutant.sh" "$WT" "$M" > "$OUTD/$(basename "$WT")-$(basename "$M").log" 2>&1
        done
    ) &
done
wait
for F in "$OUTD"/*.log; do
    DEMO0=$(sed -n '/demo on unchanged/,/existing suite/p' "$F" | grep -c '^test result: ok')
    SUITE_OK=$(sed -n '/existing suite/,/build with/p' "$F" | grep -c '^test result: ok')
    SUITE_BAD=$(sed -n '/existing suite/,/build with/p' "$F" | grep -cE 'FAILED|error')
    BUILD=$(grep -c 'Finished' "$F")
    DEMO1=$(sed -n '/demo with the patch/,$p' "$F" | grep -cE 'FAILED|error: test failed|panicked')
    NOAPPLY=$(grep -c 'DOES NOT APPLY' "$F")
    V=ok
    [ "$DEMO0" -ge 1 ] && [ "$SUITE_OK" -ge 4 ] && [ "$SUITE_BAD" -eq 0 ] && [ "$BUILD" -ge 1 ] && [ "$DEMO1" -ge 1 ] && [ "$NOAPPLY" -eq 0 ] || V=CHECK
    echo "$(basename "$F" .log): demo-unchanged-ok=$DEMO0 suite-ok-lines=$SUITE_OK suite-bad=$SUITE_BAD verif-build=$BUILD demo-patched-fails=$DEMO1 noapply=$NOAPPLY => $V"
done
echo "logs in $OUTD"
