#!/usr/bin/env python3
"""Writes seeded/RESULTS.md from the raw sweep outputs under seeded/sweeps/ (one line per
(change, check): `<id> <prop> exit=<n> :: <first violation>`, written by tools/sweep_copy.sh)
and from each change's meta.json. The latest line per (change, check) wins."""
import glob, json, os, re
root = os.path.join(os.path.dirname(os.path.abspath(__file__)), "..", "seeded")
latest = {}
for f in sorted(glob.glob(os.path.join(root, "sweeps", "*.out"))):
    for l in open(f, errors="replace"):
        m = re.match(r"(\S+) (C\d\d) exit=(\d+) :: ?(.*)", l)
        if m:
            latest[(m.group(1), m.group(2))] = (int(m.group(3)), m.group(4).strip(), os.path.basename(f))
metas = {}
for d in sorted(glob.glob(os.path.join(root, "*", "meta.json"))):
    m = json.load(open(d))
    metas[m["id"]] = m
rows, own_caught, own_total, others = [], 0, 0, []
for id_, m in sorted(metas.items()):
    p = m.get("breaks_property") or m["checks_run_against_it"][0]
    r = latest.get((id_, p))
    if r is None:
        continue
    own_total += 1
    own_caught += r[0] == 1
    if r[0] != 1:
        others.append(id_)
    rows.append((id_, p, r[0], r[1][:140].replace("|", "/"), r[2]))
    for (i2, p2), r2 in sorted(latest.items()):
        if i2 == id_ and p2 != p:
            rows.append((id_, p2, r2[0], r2[1][:140].replace("|", "/"), r2[2]))
out = ["# Seeded changes vs. the quick checks — sweeps kept under seeded/sweeps/", "",
       "Each change applied to a scratch worktree of /repo's HEAD, `./check <property> quick` (both legs) run from a scratch copy of the",
       "simulator (`tools/sweep_copy.sh`), change undone. exit 1 = the check reported a VIOLATION (the change is caught); exit 0 = not",
       "caught by that check. The latest line per (change, check) is shown; `RESULTS-2026-10-04-at-922a5ea.md` is the previous full sweep", "(rounds 6-10).", "",
       f"{own_caught} of {own_total} changes swept here are caught by the check of their own property." + (" Not caught there: " + ", ".join(others) + "." if others else ""), "",
       "| seeded change | check | exit | first clause reported | sweep file |", "|---|---|---|---|---|"]
out += [f"| {a} | {b} | {c} | {d} | {e} |" for a, b, c, d, e in rows]
open(os.path.join(root, "RESULTS.md"), "w").write("\n".join(out) + "\n")
print(own_caught, "of", own_total)
