#!/bin/sh
# usage: tools/seeded_sweep.sh [id-prefix]
# Applies every seeded change (seeded/<id>/patch.diff) to /repo in turn, runs the quick check
# of the property it breaks (first entry of checks_run_against_it; pass ALL=1 for all listed),
# undoes the change, and writes seeded/RESULTS.md.
set -u
cd "$(dirname "$0")/.." || exit 2
REPO="${SWEEP_REPO:-/repo}"
OUT=seeded/RESULTS.md
echo "# Seeded changes vs. the quick checks (written by tools/seeded_sweep.sh)" > $OUT
echo "" >> $OUT
echo "| seeded change | check | exit | first clause reported |" >> $OUT
echo "|---|---|---|---|" >> $OUT
for d in seeded/${1:-}*/; do
  id=$(basename "$d")
  [ -f "$d/patch.diff" ] || continue
  checks=$(python3 -c "import json,os;m=json.load(open('$d/meta.json'));c=m['checks_run_against_it'];print(' '.join(c if os.environ.get('ALL') else c[:1]))")
  if [ -n "$(git -C "$REPO" status --porcelain --untracked-files=no)" ]; then echo "/repo not clean"; exit 2; fi
  git -C "$REPO" apply "$(pwd)/$d/patch.diff" || { echo "| $id | - | patch does not apply | |" >> $OUT; continue; }
  for P in $checks; do
    R=$(./check "$P" quick 2>&1); RC=$?
    clause=$(echo "$R" | grep -a "^violation" | head -1 | sed 's/^violation: //' | cut -c1-110 | tr '|' '/')
    echo "| $id | $P | $RC | $clause |" >> $OUT
    echo "$id $P exit=$RC"
  done
  git -C "$REPO" checkout -- .
  rm -f replays/*.trace
done
git checkout -- evidence 2>/dev/null
