#!/bin/sh
# usage: tools/sweep_copy.sh <out-file> <seeded-id>[:PROP[,PROP..]] ...
# Like seeded_sweep.sh, but never touches /repo or /verif: a scratch worktree of /repo's HEAD and
# a scratch copy of the simulator (path dependencies re-pointed to the worktree) are made under
# /tmp, every listed change is applied there in turn and the quick check of the property it breaks
# (or of the listed properties) is run against it; the scratch copies are removed at the end.
# One line per (change, property) is appended to <out-file>:  id prop exit=<n> :: first violation
set -u
HERE=$(cd "$(dirname "$0")/.." && pwd)
OUT="$1"; shift
S=$(mktemp -d /tmp/sweepcopy.XXXXXX)
git -C /repo worktree add --detach "$S/repo" HEAD >/dev/null 2>&1 || { echo "worktree failed"; exit 2; }
mkdir -p "$S/verif"
cp -r "$HERE/sim" "$HERE/vendor" "$HERE/check" "$HERE/KNOWN_FINDINGS.txt" "$S/verif/"
mkdir -p "$S/verif/evidence" "$S/verif/replays"
sed -i "s#/repo/#$S/repo/#g" "$S/verif/sim/Cargo.toml"
export VERIF_SCRATCH="$S/scratch"; mkdir -p "$VERIF_SCRATCH"
for item in "$@"; do
  id=${item%%:*}
  d="$HERE/seeded/$id"
  [ -f "$d/patch.diff" ] || { echo "$id - no patch" >> "$OUT"; continue; }
  if [ "$item" != "$id" ]; then props=$(echo "${item#*:}" | tr ',' ' '); else
    props=$(python3 -c "import json;m=json.load(open('$d/meta.json'));print(m.get('breaks_property') or m['checks_run_against_it'][0])"); fi
  git -C "$S/repo" checkout -q -- . ; git -C "$S/repo" clean -fdq -e target
  if ! git -C "$S/repo" apply "$d/patch.diff"; then echo "$id - patch-does-not-apply" >> "$OUT"; continue; fi
  for P in $props; do
    R=$(cd "$S/verif" && ./check "$P" quick 2>&1); RC=$?
    clause=$(echo "$R" | grep -a "^violation" | head -1 | sed 's/^violation: //' | cut -c1-200 | tr '|' '/')
    [ $RC -eq 2 ] && clause=$(echo "$R" | grep -a "HARNESS\|^error" | head -2 | tr '\n' ' ' | cut -c1-200)
    echo "$id $P exit=$RC :: $clause" >> "$OUT"
    rm -f "$S"/verif/replays/*.trace
  done
done
git -C /repo worktree remove --force "$S/repo" >/dev/null 2>&1
rm -rf "$S"
echo "sweep done" >> "$OUT"
