#!/bin/sh
# usage: try_mutant.sh <patch.diff> <prop> [<prop> ...]
# Applies the patch to /repo, runs the quick checks of the given properties, and undoes the
# patch straight afterwards. Prints one line per property: exit code and VIOLATION lines.
set -u
PATCH="$1"; shift
cd /repo || exit 2
if [ -n "$(git status --porcelain --untracked-files=no)" ]; then echo "/repo not clean"; exit 2; fi
git apply "$PATCH" || { echo "PATCH DOES NOT APPLY"; exit 2; }
cd /verif
for P in "$@"; do
    OUT=$(VERIF_RUNS="${VERIF_RUNS:-}" ./check "$P" quick 2>&1); RC=$?
    echo "== $P exit=$RC"
    echo "$OUT" | grep -aE "^violation|^VIOLATION|HARNESS|^runs=" | cut -c1-330
done
git -C /repo checkout -- .
rm -f /verif/replays/*.trace
# restore the evidence files written against the mutant
git -C /verif checkout -- evidence 2>/dev/null
